"""C06 -- hook scoping follows the nearest registered package after any hook history.

System under simulation: the real ``beartype.claw`` registry (claw_state,
sys.path_hooks) driven by a seeded history of registrations, beartyping() block
entries/exits (nested, interleaved with global registrations, bodies that
raise), skip lists and conflict faults placed first/middle/last in multi-name
calls. A declarative reference model (three Python values) runs in lock-step;
after every operation the real answer of ``get_package_conf_or_none`` for a
probe set of module names, the exception outcome and the presence of the path
hook must equal the model's.
"""
import importlib
import os
import sys

from sim import kernel, ops

ID = 'C06'
BATCH = True
NEEDS_SCRATCH = True
RULE = ('seeded histories of 2-12 operations over beartype_all / beartype_package / beartype_packages / '
        'beartype_this_package / beartyping enter+exit (nested <= 3, bodies that raise), dotted names over a 3-letter '
        'alphabet (prefixes of one another, excluded packages, invalid names), 5 configurations with and without skip '
        'lists, conflict faults first/middle/last; after every operation ~25 module names are queried. Non-trivial = '
        'at least one fault (conflict, body_raise, invalid name) or one nested block; distinct = distinct histories')
INTERLEAVING_MEASURE = 'distinct operation histories'
COMPONENTS = {
    'real': ['beartype.claw registry, trie lookup, path-hook installation (from /repo working tree)', 'sys.path_hooks'],
    'stub': ['process boundary: registry state restored in place between runs (violations re-confirmed in a pristine fork)'],
}
ASSUMPTIONS = [
    'model reading of "leaving a beartyping() block restores exactly the state that preceded it": the block\'s own '
    'effects (global configuration, its skip-list entries, the path hook) are undone; registrations made by other '
    'calls inside the body persist',
    'a failed registration leaves the model unchanged (as the property states), including skip-list entries',
]
PROBES = ['conflict_faults', 'body_raise', 'nested_blocks', 'skip_lists', 'this_package', 'invalid_names', 'queries',
          'real_imports', 'real_imports_checked', 'imports_before_first_registration']

NAMES = ['aa', 'bb', 'cc', 'aa.bb', 'aa.cc', 'bb.aa', 'aa.bb.cc', 'aa.bb.aa', 'bb.cc.aa', 'cc.cc', 'aa.bb.cc.aa']
EXCLUDED = ['beartype', 'pydantic', 'urllib3']
INVALID = ['', '1x', 'aa..bb', 'aa.', 'a-b']
CONFS = [None, {'is_color': False}, {'tower': True}, {'vt': 'valueerror'}, {'skip': ['aa.bb']}, {'skip': ['cc', 'bb.aa']},
         {'tower': True, 'skip': ['aa.cc']},
         # skip names that are dotted ancestors / descendants of one another, within one list and across configurations
         {'skip': ['aa', 'aa.bb']}, {'skip': ['aa.bb.cc']}, {'is_color': False, 'skip': ['aa.bb', 'aa']}, {'skip': ['bb']},
         {'vt': 'valueerror', 'skip': ['aa.bb.cc.aa', 'bb.cc']}]


INVALID_CONF = len(CONFS)     # configuration index standing for an object that is not a BeartypeConf at all


def _skips_of(ci):
    return list((CONFS[ci] or {}).get('skip', [])) if ci is not None and ci < len(CONFS) else []


def tiers(tier):
    if tier == 'thorough':
        return {'runs': 600000, 'wall': 600, 'det_runs': 20, 'chunks_per_job': 4}
    return {'runs': 40000, 'wall': 60, 'det_runs': 10}


def probe_names():
    out = set(NAMES) | set(EXCLUDED)
    for n in NAMES:
        parts = n.split('.')
        for i in range(1, len(parts) + 1):
            out.add('.'.join(parts[:i]))
        out.add(n + '.zz')
    out.update(['zz', 'beartype.door', 'pydantic.v1', 'zz.aa'])
    return sorted(out)


PROBE_NAMES = probe_names()
# modules that exist on disk for the end-to-end imports: every package of NAMES (its __init__) and a leaf zz in each
IMPORTABLE = sorted(set(NAMES) | {n + '.zz' for n in NAMES} | {n.split('.')[0] for n in NAMES}
                    | {'.'.join(n.split('.')[:i]) for n in NAMES for i in range(1, len(n.split('.')) + 1)})
TOPS = sorted({n.split('.')[0] for n in NAMES})
MODULE_SOURCE = 'def f(a: float) -> float:\n    return a\n'


def _tree(case):
    """The on-disk package tree (one per worker process, never modified; no bytecode is written for it)."""
    root = os.path.join(os.path.dirname(case['scratch']), 'c06tree-%d' % os.getpid())
    if not os.path.isdir(root):
        tmp = root + '.tmp'
        for n in IMPORTABLE:
            if n.endswith('.zz'):
                continue
            d = os.path.join(tmp, *n.split('.'))
            os.makedirs(d, exist_ok=True)
            for fn in ('__init__.py', 'zz.py'):
                with open(os.path.join(d, fn), 'w') as f:
                    f.write(MODULE_SOURCE)
        os.rename(tmp, root)
    return root


def _evict_tree_modules():
    for name in list(sys.modules):
        if name.split('.')[0] in TOPS:
            del sys.modules[name]


def _import_probe(name):
    """Import the module afresh (its already imported parents stay) -> ('unchecked',) | ('checked', tower?, violation type)."""
    sys.modules.pop(name, None)
    try:
        mod = importlib.import_module(name)
    except Exception as e:      # noqa
        return ('import_error', type(e).__name__, str(e)[:200])
    try:
        mod.f('x')
        return ('unchecked',)
    except Exception as e:      # noqa
        vt = 'ValueError' if type(e) is ValueError else ('beartype' if type(e).__module__.startswith('beartype.roar') else type(e).__name__)
    try:
        mod.f(1)
        tower = True
    except Exception:      # noqa
        tower = False
    return ('checked', tower, vt)


def _expected_probe(ci):
    if ci is None:
        return ('unchecked',)
    c = CONFS[ci] or {}
    return ('checked', bool(c.get('tower')), 'ValueError' if c.get('vt') == 'valueerror' else 'beartype')


# ------------------------------------------------------------------ generation
def generate(rng, run, tier):
    n = rng.randint(2, 12)
    hist = []
    depth = 0
    block_skips = rng.random() < 0.15
    registered_guess = []      # (name, confindex) the generator believes registered: used to aim conflicts
    while len(hist) < n:
        r = rng.random()
        if r < 0.14:
            hist.append({'op': 'all', 'conf': rng.randrange(len(CONFS))})
        elif r < 0.38:
            name = rng.choice(NAMES + EXCLUDED) if rng.random() < 0.93 else rng.choice(INVALID)
            ci = rng.randrange(len(CONFS))
            hist.append({'op': 'pkg', 'name': name, 'conf': ci})
            registered_guess.append((name, ci))
        elif r < 0.58:
            k = rng.choice([2, 2, 3])
            names = rng.sample(NAMES, k)
            ci = rng.randrange(len(CONFS))
            if registered_guess and rng.random() < 0.6:
                # conflict fault: a name already registered under another configuration, first/middle/last
                cn, cci = rng.choice(registered_guess)
                if cci != ci and cn in NAMES:
                    names = [x for x in names if x != cn]
                    names.insert(rng.choice([0, len(names) // 2, len(names)]), cn)
            if rng.random() < 0.05:
                names.insert(rng.randrange(len(names) + 1), rng.choice(INVALID))
            hist.append({'op': 'pkgs', 'names': names, 'conf': ci})
            for x in names:
                registered_guess.append((x, ci))
        elif r < 0.66:
            hist.append({'op': 'this', 'pkg': rng.choice(NAMES + ['']), 'conf': rng.randrange(len(CONFS))})
        elif r < 0.84 and depth < 3:
            # avoid switch (known finding C06-beartyping-skip-leak): blocks mostly use skip-free configurations
            hist.append({'op': 'enter', 'conf': rng.randrange(len(CONFS)) if block_skips else rng.randrange(4)})
            depth += 1
        elif depth > 0:
            hist.append({'op': 'exit', 'raise': rng.random() < 0.25})
            depth -= 1
        else:
            hist.append({'op': 'pkg', 'name': rng.choice(NAMES), 'conf': rng.randrange(len(CONFS))})
    while depth > 0 and rng.random() < 0.8:
        hist.append({'op': 'exit', 'raise': rng.random() < 0.25})
        depth -= 1
    if rng.random() < 0.3:
        # end to end: real imports of on-disk modules of those names, placed anywhere in the history - before the first
        # registration too, so that the import system has already cached finders for some package directories when the
        # path hook arrives (drawn last: the registration history is what it would be without them)
        for _ in range(rng.randint(1, 5)):
            hist.insert(rng.randint(0, len(hist)), {'op': 'import', 'name': rng.choice(IMPORTABLE)})
    for op in hist:
        # fault: the configuration argument is not a configuration (every entry point, block entries included); the call must
        # raise and change nothing
        if 'conf' in op and rng.random() < 0.03:
            op['conf'] = INVALID_CONF
    return {'hist': hist}


# ------------------------------------------------------------------ reference model
class Model:
    def __init__(self):
        self.all_conf = None
        self.reg = {}
        self.skipped = set()
        self.stack = []
        self.ghosts = set()     # skip entries a left beartyping() block had added (known finding C06-beartyping-skip-leak)

    @staticmethod
    def valid_name(n):
        return isinstance(n, str) and bool(n) and all(p.isidentifier() for p in n.split('.'))

    def _skip_names(self, ci):
        return _skips_of(ci)

    def op_all(self, ci):
        if ci == INVALID_CONF:
            return 'invalid'
        if self.all_conf is not None and self.all_conf != ci:
            return 'conflict'
        self.skipped.update(self._skip_names(ci))
        self.all_conf = ci
        return 'ok'

    def op_pkgs(self, names, ci):
        if ci == INVALID_CONF:
            return 'invalid'
        if not names:
            return 'invalid'
        for n in names:
            if not self.valid_name(n):
                return 'invalid'
        for n in names:
            if n in self.reg and self.reg[n] != ci:
                return 'conflict'
        self.skipped.update(self._skip_names(ci))
        for n in names:
            self.reg[n] = ci
        return 'ok'

    def op_enter(self, ci):
        if ci == INVALID_CONF:
            return 'invalid'
        added = [s for s in self._skip_names(ci) if s not in self.skipped]
        self.stack.append((self.all_conf, ci, added))
        self.skipped.update(added)
        self.all_conf = ci
        return 'ok'

    def op_exit(self):
        saved, ci, added = self.stack.pop()
        if self.all_conf == ci:
            self.all_conf = saved
        for s in added:
            self.skipped.discard(s)
            self.ghosts.add(s)
        return 'ok'

    def query(self, name):
        parts = name.split('.')
        for i in range(1, len(parts) + 1):
            pre = '.'.join(parts[:i])
            if pre in self.skipped:
                return None
        if parts[0] in EXCLUDED_ALL:
            return None
        best = self.all_conf
        for i in range(1, len(parts) + 1):
            pre = '.'.join(parts[:i])
            if pre in self.reg:
                best = self.reg[pre]
        return best

    def hooked(self):
        return self.all_conf is not None or bool(self.reg)


EXCLUDED_ALL = None


def _load_excluded():
    global EXCLUDED_ALL
    if EXCLUDED_ALL is None:
        from beartype._data.shame.module.datashamemod import BLACKLIST_PACKAGE_NAMES
        EXCLUDED_ALL = set(BLACKLIST_PACKAGE_NAMES) | {'beartype'}


# ------------------------------------------------------------------ execution
def _hook_count():
    return ops.beartype_hook_count()


class BodyError(Exception):
    pass


def execute(case):
    import warnings
    from beartype import claw
    from beartype.claw._package.clawpkgtrie import get_package_conf_or_none
    from beartype.claw._package._clawpkgmake import make_conf_hookable
    from beartype.roar import BeartypeClawHookException
    _load_excluded()
    model = Model()
    confs = [ops.build_conf(c) for c in CONFS]
    hookable = [make_conf_hookable(c) for c in confs]
    confs.append('not a configuration')
    cms = []
    probes = {k: 0 for k in PROBES}
    viol = None
    faults = 0
    max_depth = 0

    def real(fn):
        try:
            fn()
            return 'ok', None
        except BeartypeClawHookException as e:
            return 'hookexc', e
        except BodyError as e:
            return 'bodyerror', e
        except Exception as e:      # noqa
            return 'other:' + type(e).__name__, e

    has_imports = any(op['op'] == 'import' for op in case['hist'])
    if has_imports:
        root = _tree(case)
        _evict_tree_modules()
        sys.path_importer_cache.clear()
        importlib.invalidate_caches()
        old_path, old_dwb = list(sys.path), sys.dont_write_bytecode
        sys.path.insert(0, root)
        sys.dont_write_bytecode = True
    try:
      with warnings.catch_warnings():
        warnings.simplefilter('ignore')
        for i, op in enumerate(case['hist']):
            k = op['op']
            if k == 'import':
                exp = 'ok'
                got = _import_probe(op['name'])
                want = _expected_probe(model.query(op['name']))
                probes['real_imports'] += 1
                probes['real_imports_checked'] += got[0] == 'checked'
                if not model.hooked() and not any(o['op'] != 'import' for o in case['hist'][:i]):
                    probes['imports_before_first_registration'] += 1
                if got != want:
                    if got == ('unchecked',) and any(op['name'] == g or op['name'].startswith(g + '.') for g in model.ghosts):
                        viol = ('scoping_mismatch', 'op %d: importing %r gives an unchecked module because skip-list entry of an '
                                'already left beartyping() block is still in force (history %r)' % (i, op['name'], case['hist'][:i + 1]), 'ghost_skip')
                    else:
                        viol = ('import_mismatch', 'op %d: importing the on-disk module %r gives %r, the registrations so far '
                                'require %r (history %r)' % (i, op['name'], got, want, case['hist'][:i + 1]),
                                'import_mismatch:' + got[0] + ':' + want[0])
                    break
                continue
            if k == 'all':
                exp = model.op_all(op['conf'])
                st, e = real(lambda: claw.beartype_all(conf=confs[op['conf']]))
            elif k == 'pkg':
                exp = model.op_pkgs([op['name']], op['conf'])
                st, e = real(lambda: claw.beartype_package(op['name'], conf=confs[op['conf']]))
            elif k == 'pkgs':
                exp = model.op_pkgs(op['names'], op['conf'])
                st, e = real(lambda: claw.beartype_packages(tuple(op['names']), conf=confs[op['conf']]))
            elif k == 'this':
                if op['pkg']:
                    exp = model.op_pkgs([op['pkg']], op['conf'])
                else:
                    exp = 'invalid'
                g = {'__name__': (op['pkg'] + '.mod') if op['pkg'] else 'mod', '__package__': op['pkg'] or None,
                     'CONF': confs[op['conf']]}
                st, e = real(lambda: exec('from beartype.claw import beartype_this_package\nbeartype_this_package(conf=CONF)', g))
                probes['this_package'] += 1
            elif k == 'enter':
                exp = model.op_enter(op['conf'])
                cm = claw.beartyping(conf=confs[op['conf']])
                st, e = real(cm.__enter__)
                if exp != 'invalid' or st == 'ok':
                    cms.append(cm)
                max_depth = max(max_depth, len(cms))
            elif k == 'exit':
                if not cms:
                    continue
                exp = model.op_exit()
                cm = cms.pop()
                if op.get('raise'):
                    probes['body_raise'] += 1
                    faults += 1

                    def leave():
                        try:
                            raise BodyError('body')
                        except BodyError:
                            if not cm.__exit__(*sys.exc_info()):
                                raise
                    st, e = real(leave)
                    if st == 'bodyerror':
                        st = 'ok'
                    elif st == 'ok':
                        st = 'swallowed'
                else:
                    st, e = real(lambda: cm.__exit__(None, None, None))
            else:
                raise ValueError(op)
            if exp in ('conflict', 'invalid'):
                faults += 1
                probes['conflict_faults' if exp == 'conflict' else 'invalid_names'] += 1
                if st != 'hookexc':
                    viol = ('fault_not_reported', 'op %d %r: model expects %s -> BeartypeClawHookException, got %s %s' % (
                        i, op, exp, st, str(e)[:150]), 'fault_not_reported:' + exp + ':' + st)
                    break
            elif st != 'ok':
                viol = ('unexpected_failure', 'op %d %r: model expects success, got %s %s' % (i, op, st, str(e)[:200]),
                        'unexpected_failure:' + k + ':' + st)
                break
            if _skips_of(op.get('conf', 0)):
                probes['skip_lists'] += 1
            # observable state vs model
            bad = None
            for name in PROBE_NAMES:
                got = get_package_conf_or_none(name)
                want_i = model.query(name)
                want = None if want_i is None else hookable[want_i]
                probes['queries'] += 1
                if got is not want:
                    bad = (name, got, want)
                    break
            if bad and bad[1] is None and any(bad[0] == g or bad[0].startswith(g + '.') for g in model.ghosts):
                viol = ('scoping_mismatch', 'after op %d %r: module %r is unchecked because skip-list entry of an already '
                        'left beartyping() block is still in force (model says %r; history %r)' % (
                            i, op, bad[0], bad[2], case['hist'][:i + 1]), 'ghost_skip')
                break
            if bad:
                viol = ('scoping_mismatch', 'after op %d %r: module %r is checked under %r, model says %r (history %r)' % (
                    i, op, bad[0], bad[1], bad[2], case['hist'][:i + 1]), 'scoping_mismatch:' + _why(case['hist'][:i + 1], exp))
                break
            hc = _hook_count()
            if hc > 1 or (hc == 1) != model.hooked():
                viol = ('path_hook_mismatch', 'after op %d %r: %d beartype path hooks installed, model registry %s (history %r)' % (
                    i, op, hc, 'non-empty' if model.hooked() else 'empty', case['hist'][:i + 1]),
                    'path_hook_mismatch:' + _why(case['hist'][:i + 1], exp))
                break
    finally:
        if has_imports:
            sys.path[:] = old_path
            sys.dont_write_bytecode = old_dwb
            _evict_tree_modules()
            sys.path_importer_cache.clear()
            importlib.invalidate_caches()
    probes['nested_blocks'] = 1 if max_depth > 1 else 0
    out = {'digest': kernel.stable_hash(case['hist']), 'nontrivial': faults > 0 or max_depth > 1, 'probes': probes,
           'stats': {'conflict': probes['conflict_faults'], 'body_raise': probes['body_raise'],
                     'invalid_name': probes['invalid_names']}, 'violation': None}
    if viol:
        out['violation'] = {'kind': viol[0], 'detail': viol[1], 'key': viol[2], 'last_exp': exp, 'last_op': case['hist'][i]}
    return out


def _why(prefix, exp):
    """Coarse classification of the failing history (used as grouping key and by signatures)."""
    last = prefix[-1]
    tags = [last['op']]
    if exp in ('conflict', 'invalid'):
        tags.append('after_failed_call')
    if last['op'] == 'exit':
        tags.append('block_exit')
    if _skips_of(last.get('conf', 0)):
        tags.append('skipconf')
    return '+'.join(tags)


# ------------------------------------------------------------------ shrinking
def shrink(case, violation):
    h = case['hist']
    for cand in kernel.drop_chunks(h, 1):
        yield {'hist': cand}
    for i, o in enumerate(h):
        if o['op'] == 'pkgs' and len(o['names']) > 1:
            for j in range(len(o['names'])):
                o2 = dict(o)
                o2['names'] = o['names'][:j] + o['names'][j + 1:]
                yield {'hist': h[:i] + [o2] + h[i + 1:]}
        if o.get('conf'):
            o2 = dict(o)
            o2['conf'] = 0
            yield {'hist': h[:i] + [o2] + h[i + 1:]}
        if o.get('raise'):
            o2 = dict(o)
            o2['raise'] = False
            yield {'hist': h[:i] + [o2] + h[i + 1:]}


def _sig_ghost_skip(case, v):
    return v.get('kind') == 'scoping_mismatch' and v.get('key') == 'ghost_skip'


SIGNATURES = {'ghost_skip': _sig_ghost_skip}


def describe(case):
    return case['hist']
