"""C07 -- string and postponed annotations are checked exactly like evaluated ones.

What the technique decides here is the *history* dimension: the order of the
events "decorate", "define the referenced name", "first call". Live synthetic
modules receive generated templates (module-level function, method of a
possibly nested class, closure inside a factory function; string literals or
``from __future__ import annotations``). After all names exist a twin is decorated
with the *evaluated* annotation; every call made when all names resolve must give
the twin's verdict under the same sampler draw; a call made while a needed name
is unresolved must raise a beartype forward-reference exception (never a bare
NameError) and the *same* function object must work after the name is defined.
"""
import sys
import types

from sim import entry, kernel

ID = 'C07'
BATCH = True
RULE = ('seeded histories: placement (module / method / nested-class method / closure) x annotation style (quoted / '
        'postponed) x hint text (11 shapes over 1-2 names) x referenced names (defined earlier, later, the class itself, a '
        'nested class by dotted name, a local of the enclosing function) x an order of 3-8 define / call events with objects '
        'of the right class, of another class, builtins and containers of them. Non-trivial = at least one call precedes '
        'the definition of a name it needs; distinct = distinct histories')
INTERLEAVING_MEASURE = 'distinct event histories'
COMPONENTS = {
    'real': ['beartype decorator, forward-reference scope and proxies, PEP 563 resolution (from /repo working tree)', 'CPython exec / module namespaces'],
    'stub': ['user modules are synthetic types.ModuleType objects registered in sys.modules', 'sampler draw'],
}
ASSUMPTIONS = ['only references that Python\'s own scoping makes resolvable are generated (module globals defined before or after, the class '
               'being defined and its nested classes by bare or dotted name, locals of the enclosing function created by the same call)',
               'names are defined at most once per history (redefinition belongs to C14)']
PROBES = ['calls_before_define', 'fwdref_exceptions', 'calls_after_define', 'postponed_style', 'closure_placements', 'method_placements', 'histories']


def tiers(tier):
    if tier == 'thorough':
        return {'runs': 300000, 'wall': 600, 'det_runs': 10, 'chunks_per_job': 4}
    return {'runs': 12000, 'wall': 60, 'det_runs': 8}


SHAPES = ['{T}', 'list[{T}]', 'Optional[{T}]', 'Union[{T}, int]', 'dict[str, {T}]', 'tuple[{T}, ...]', 'tuple[int, {T}]',
          'type[{T}]', 'list[Optional[{T}]]', '{T} | None', 'Union[{T}, {U}]',
          # the name hidden in a child that beartype ignores (a union with object): never visited when the checker is
          # generated, visited when a rejection is explained
          'tuple[Union[{T}, object], int]', 'dict[str, Union[{T}, object]]', 'list[Union[{T}, object]]',
          'tuple[int, Optional[Union[{T}, object]]]']
IGNORABLE_SHAPES = ('tuple[Union[{T}, object], int]', 'dict[str, Union[{T}, object]]', 'list[Union[{T}, object]]',
                    'tuple[int, Optional[Union[{T}, object]]]')


def generate(rng, run, tier):
    placement = rng.choice(['module', 'module', 'method', 'nested_method', 'closure', 'closure_method'])
    style = rng.choice(['quoted', 'quoted', 'postponed', 'partial'])
    names = ['Early', 'Later']
    if placement == 'method':
        names += ['Outer', 'Outer', 'Tag']
    elif placement == 'nested_method':
        # Tag: an alias bound in the body of the class defining the method only; Key: bound in that body (to Early) and,
        # differently (to int), in the body of the enclosing decorated class, which Python's scoping does not consult
        names += ['Outer', 'Outer.Inner', 'Inner', 'Tag', 'Key']
    elif placement in ('closure', 'closure_method'):
        names += ['Local', 'Local']
    shape = rng.choice(SHAPES)
    t = rng.choice(names)
    u = rng.choice(['Early', 'Later', 'str'])
    text = shape.format(T=t, U=u)
    if placement in ('closure', 'closure_method') and text.strip() == 'Later' and rng.random() < 0.8:
        # avoid switch: known finding C07-closure-fake-forwardref (unresolvable name in a closure is matched by class name)
        text = 'list[Later]'
        shape = 'list[{T}]'
    generic = False
    if t in ('Early', 'Later', 'Local') and rng.random() < 0.15:
        # the named class is a user generic and the annotation *subscripts* the name: 'Later[int]', list['Local[int]']
        generic = True
        shape = rng.choice(['{T}[int]', 'list[{T}[int]]', 'Optional[{T}[str]]', '{T}[int] | None', 'Union[{T}[int], int]', 'dict[str, {T}[int]]'])
        text = shape.format(T=t, U=u)
    events = []
    later_needed = 'Later' in text
    n = rng.randint(3, 8)
    defined = False
    objs = ['T', 'T', 'other', 'int', 'str', 'none', 'list_T', 'list_other', 'dict_T', 'tuple_T', 'cls_T', 'tuple_int_T', 'list_none',
            'tuple_T_str', 'tuple_str_T', 'dict_int_T', 'T_bad', 'T_bad', 'T_good', 'T_sub', 'T_sub', 'T_subsub', 'cls_T_sub', 'list_T_sub']
    if shape in IGNORABLE_SHAPES and rng.random() < 0.9:
        # avoid switch: known finding C07-fwdref-hidden-in-ignorable-child (most runs steer around it)
        shape = 'list[{T}]'
        text = shape.format(T=t, U=u)
    for i in range(n):
        if later_needed and not defined and rng.random() < 0.3:
            events.append({'e': 'define', 'n': 'Later'})
            defined = True
        else:
            events.append({'e': 'call', 'x': rng.choice(objs), 'draw': rng.choice([0, 1, 2, 7])})
    if later_needed and not defined:
        events.append({'e': 'define', 'n': 'Later'})
        events.append({'e': 'call', 'x': rng.choice(objs), 'draw': 0})
        events.append({'e': 'call', 'x': 'T', 'draw': 0})
    return {'placement': placement, 'style': style, 'text': text, 'T': t, 'U': u, 'events': events,
            # what the module-level names Early / Later refer to: plain classes, or subclasses of a subscripted generic
            # (avoid switch: in closures the known finding C07-closure-fake-forwardref also shows with such classes)
            'flavour': 'generic' if generic else rng.choice([None, None, None, 'list_int', 'dict_str_int']) if (placement not in ('closure', 'closure_method') or rng.random() < 0.15) else None,
            # the same source is executed a second time in a second module with its own classes (same names):
            # nothing resolved or generated for the first scope may leak into the second
            'two_scopes': rng.random() < 0.5,
            # (drawn last) the kind of the annotated callable
            'ckind': rng.choice(['func', 'func', 'func', 'gen', 'agen', 'coro']),
            # (drawn last) the decorated class derives from a user class whose *attributes* are named like the module globals the
            # annotations refer to (Python never consults a base class's namespace for an annotation)
            'base_shadow': rng.random() < 0.3}


def _partial(text):
    """Quote only the names inside an otherwise evaluated hint expression: list['Later'], Union['Later', int]."""
    import re
    return re.sub(r"\b(Outer\.Inner|Early|Later|Outer|Inner|Local|Tag|Key)\b(\[\w+\])?", lambda m: repr(m.group(0)), text)


def _source(case):
    if case['style'] == 'postponed':
        ann = case['text']
    elif case['style'] == 'partial' and '|' not in case['text']:
        ann = _partial(case['text'])
    else:
        ann = repr(case['text'])
    head = ['from __future__ import annotations'] if case['style'] == 'postponed' else []
    head += ['from beartype import beartype', 'from typing import AsyncIterator, Coroutine, Generic, Iterator, Optional, TypeVar, Union',
             "TV = TypeVar('TV')"]
    local = 'class Local(Generic[TV]): pass' if case.get('flavour') == 'generic' else 'class Local: pass'
    # the kind of the annotated callable: plain function, generator, asynchronous generator, coroutine (explicit Coroutine[...]
    # return form); its return annotation wraps the same text and is a string / postponed exactly like the parameter's
    kw, stmt, fmt = CKINDS[case.get('ckind', 'func')]
    if case['style'] == 'postponed':
        rann = fmt % case['text']
    elif case['style'] == 'partial' and '|' not in case['text']:
        rann = fmt % _partial(case['text'])
    else:
        rann = repr(fmt % case['text'])
    p = case['placement']
    shadow = bool(case.get('base_shadow'))
    basedef = ['class ShadowBase:', '    Early = int', '    Later = int', '    Local = int', '    Outer = int'] if shadow else []
    bases = '(ShadowBase)' if shadow else ''
    if p == 'module':
        body = ['@beartype', '%s f(a: %s) -> %s:' % (kw, ann, rann), '    %s a' % stmt]
    elif p == 'method':
        body = basedef + ['@beartype', 'class Outer%s:' % bases, '    Tag = Early', '    %s m(self, a: %s) -> %s:' % (kw, ann, rann), '        %s a' % stmt,
                'f = Outer().m']
    elif p == 'nested_method':
        body = basedef + ['@beartype', 'class Outer%s:' % bases, '    Key = int', '    class Inner%s:' % bases, '        Tag = Early', '        Key = Early',
                '        %s m(self, a: %s) -> %s:' % (kw, ann, rann),
                '            %s a' % stmt, 'f = Outer.Inner().m', 'Inner = None']
    elif p == 'closure_method':
        # a class decorated inside a function; its method names a local of that function defined after the class
        body = basedef + ['def factory():', '    @beartype', '    class Holder%s:' % bases, '        %s m(self, a: %s) -> %s:' % (kw, ann, rann),
                '            %s a' % stmt, '    ' + local, '    return Holder().m, Local', 'f, Local_ = factory()']
    else:
        body = ['def factory():', '    @beartype', '    %s clo(a: %s) -> %s:' % (kw, ann, rann), '        %s a' % stmt,
                '    ' + local, '    return clo, Local', 'f, Local_ = factory()']
    if case.get('ckind', 'func') != 'func':
        body.append('f = _c07_drive(f)')
    return '\n'.join(head + body) + '\n'


CKINDS = {'func': ('def', 'return', '%s'), 'gen': ('def', 'yield', 'Iterator[%s]'), 'agen': ('async def', 'yield', 'AsyncIterator[%s]'),
          'coro': ('async def', 'return', 'Coroutine[object, object, %s]')}


def _drive_for(ckind):
    """callable -> one-argument callable returning the value the generator yields / the coroutine returns."""
    def run(coro):
        try:
            coro.send(None)
        except StopIteration as e:
            return e.value
        raise RuntimeError('suspended')
    if ckind == 'gen':
        return lambda f: (lambda x: next(f(x)))
    if ckind == 'agen':
        return lambda f: (lambda x: run(f(x).__anext__()))
    if ckind == 'coro':
        return lambda f: (lambda x: run(f(x)))
    return lambda f: f


def _resolve(name, mod):
    if name == 'Local':
        return mod.__dict__.get('Local_')
    if name in ('Tag', 'Key'):
        return mod.__dict__.get('Early')
    if name == 'Outer.Inner' or name == 'Inner':
        o = mod.__dict__.get('Outer')
        return getattr(o, 'Inner', None) if o is not None else None
    return mod.__dict__.get(name)


def _mkcls(name, modname, flavour):
    """The class a name refers to: plain, or a subclass of a subscripted generic (a class that is itself a checkable hint)."""
    if flavour == 'list_int':
        return types.new_class(name, (list[int],), {}, lambda ns: ns.update(__module__=modname))
    if flavour == 'generic':
        import typing
        return types.new_class(name, (typing.Generic[typing.TypeVar('TV')],), {}, lambda ns: ns.update(__module__=modname))
    if flavour == 'dict_str_int':
        return types.new_class(name, (dict[str, int],), {}, lambda ns: ns.update(__module__=modname))
    return type(name, (), {'__module__': modname})


def _obj(kind, tcls, other):
    if kind in ('T_bad', 'T_good'):
        # an instance of T whose *contents* violate / satisfy the subscription T was derived from (plain T: just an instance)
        if isinstance(tcls, type) and issubclass(tcls, list):
            return tcls(['oops'] if kind == 'T_bad' else [1, 2])
        if isinstance(tcls, type) and issubclass(tcls, dict):
            return tcls({'k': 'oops'} if kind == 'T_bad' else {'k': 1})
        return tcls()
    if kind in ('T_sub', 'T_subsub', 'cls_T_sub', 'list_T_sub'):
        # an instance of a direct (or second-level) subclass of T, or that subclass itself
        sub = type('Sub', (tcls,), {})
        if kind == 'T_subsub':
            sub = type('SubSub', (sub,), {})
        if kind == 'cls_T_sub':
            return sub
        try:
            inst = sub()
        except TypeError:
            inst = tcls()
        return [inst] if kind == 'list_T_sub' else inst
    if kind == 'T':
        return tcls()
    if kind == 'other':
        return other()
    if kind == 'int':
        return 5
    if kind == 'str':
        return 's'
    if kind == 'none':
        return None
    if kind == 'list_T':
        return [tcls(), tcls()]
    if kind == 'list_other':
        return [other()]
    if kind == 'dict_T':
        return {'k': tcls()}
    if kind == 'tuple_T':
        return (tcls(), tcls())
    if kind == 'cls_T':
        return tcls
    if kind == 'tuple_int_T':
        return (1, tcls())
    if kind == 'list_none':
        return [None, tcls()]
    if kind == 'tuple_T_str':
        return (tcls(), 's')
    if kind == 'tuple_str_T':
        return ('s', tcls())
    if kind == 'dict_int_T':
        return {1: tcls()}
    raise ValueError(kind)


def execute(case):
    import warnings
    from beartype import beartype
    from beartype.roar import BeartypeCallHintForwardRefException, BeartypeException
    from sim import boot
    boot.SAMPLER.reset()
    probes = {k: 0 for k in PROBES}
    probes['histories'] = 1
    if case['style'] == 'postponed':
        probes['postponed_style'] = 1
    if case['placement'] in ('closure', 'closure_method'):
        probes['closure_placements'] = 1
    if case['placement'] in ('method', 'nested_method'):
        probes['method_placements'] = 1
    viol = None
    for modname in (['c07_user_mod', 'c07_user_mod_b'] if case.get('two_scopes') else ['c07_user_mod']):
        viol = _run_scope(case, modname, probes)
        if viol:
            if modname.endswith('_b'):
                viol = (viol[0], 'SECOND SCOPE (same source executed in a second module with its own classes): ' + viol[1], 'scope2:' + viol[2])
            break
    sys.modules.pop('c07_user_mod', None)
    sys.modules.pop('c07_user_mod_b', None)
    return _out(case, probes, viol)


def _run_scope(case, modname, probes):
    import warnings
    from beartype import beartype
    from beartype.roar import BeartypeCallHintForwardRefException, BeartypeException
    from sim import boot
    mod = types.ModuleType(modname)
    sys.modules[modname] = mod
    mod.__dict__['Early'] = _mkcls('Early', modname, case.get('flavour'))
    mod.__dict__['_c07_drive'] = _drive_for(case.get('ckind', 'func'))
    other = type('Unrelated', (), {'__module__': modname})
    viol = None
    calls = []          # (event index, kind, draw, outcome, resolved?)
    try:
        with warnings.catch_warnings():
            warnings.simplefilter('ignore')
            src = _source(case)
            try:
                exec(compile(src, '<c07:%s>' % case['placement'], 'exec'), mod.__dict__)
            except BeartypeException as e:
                # decoration-time failure because of a not yet defined name would violate the property
                viol = ('decoration_failed', 'decorating %r with annotation text %r raised %s: %s' % (
                    case['placement'], case['text'], type(e).__name__, str(e)[:300]), 'decor:' + case['placement'])
            except Exception as e:      # noqa
                viol = ('decoration_failed', 'decorating raised %s: %s' % (type(e).__name__, str(e)[:300]), 'decor_other:' + type(e).__name__)
            f = mod.__dict__.get('f')
            defined_later = False
            if viol is None:
                for i, ev in enumerate(case['events']):
                    if ev['e'] == 'define':
                        mod.__dict__[ev['n']] = _mkcls(ev['n'], modname, case.get('flavour'))
                        defined_later = True
                        continue
                    tcls = _resolve(case['T'], mod)
                    needs_later = 'Later' in case['text']
                    resolved = (not needs_later) or defined_later
                    if tcls is None:
                        # the object itself needs the class: use the unrelated class while T does not exist yet
                        x_kind = ev['x'] if ev['x'] in ('other', 'int', 'str', 'none', 'list_other') else 'other'
                        x = _obj(x_kind, other, other)
                    else:
                        x_kind = ev['x']
                        x = _obj(x_kind, tcls, other)
                    boot.SAMPLER.sticky = ev['draw']
                    try:
                        r = f(x)
                        out = ['accept', r is x]
                    except BeartypeCallHintForwardRefException as e:
                        out = ['fwdref', type(e).__name__]
                        probes['fwdref_exceptions'] += 1
                    except BeartypeException as e:
                        out = ['beartype', type(e).__name__]
                    except Exception as e:      # noqa
                        out = ['other', type(e).__name__, str(e)[:120]]
                    finally:
                        boot.SAMPLER.sticky = None
                    if not resolved:
                        probes['calls_before_define'] += 1
                    else:
                        probes['calls_after_define'] += 1
                    calls.append((i, x_kind, ev['draw'], out, resolved, tcls is not None))
                    if out[0] == 'other':
                        viol = ('non_beartype_exception', 'event %d: call with %s raised %s: %s (annotation %r, %s, names resolved: %s)' % (
                            i, x_kind, out[1], out[2], case['text'], case['placement'], resolved), 'other:' + out[1])
                        break
                    if not resolved and case['text'].strip() == 'Later' and out[0] != 'fwdref':
                        viol = ('unresolved_not_reported', 'event %d: annotation %r unresolved, call outcome %r instead of a forward-reference exception' % (
                            i, case['text'], out), 'unresolved:' + case['placement'])
                        break
                    if resolved and out[0] == 'fwdref':
                        viol = ('resolvable_reported_unresolved', 'event %d: all names of %r exist (%s) but the call raised %s' % (
                            i, case['text'], case['placement'], out[1]), 'stillfwd:' + case['placement'] + ':' + case['T'])
                        break
            # twin with evaluated annotations
            if viol is None:
                ns = dict(mod.__dict__)
                ns['Local'] = mod.__dict__.get('Local_')
                ns['Tag'] = ns['Key'] = mod.__dict__.get('Early')
                o = mod.__dict__.get('Outer')
                if o is not None and hasattr(o, 'Inner'):
                    ns['Inner'] = o.Inner
                from typing import Optional, Union
                ns.update(Optional=Optional, Union=Union)
                try:
                    hint = eval(case['text'], ns)
                except Exception as e:      # noqa
                    return ('harness_twin_eval', repr(e), 'harness')

                ck = case.get('ckind', 'func')
                import typing as _t
                if ck == 'gen':
                    def g(a):
                        yield a
                    rhint = _t.Iterator[hint]
                elif ck == 'agen':
                    async def g(a):
                        yield a
                    rhint = _t.AsyncIterator[hint]
                elif ck == 'coro':
                    async def g(a):
                        return a
                    rhint = _t.Coroutine[object, object, hint]
                else:
                    def g(a):
                        return a
                    rhint = hint
                g.__annotations__ = {'a': hint, 'return': rhint}
                twin = _drive_for(ck)(beartype(g))
                tcls = _resolve(case['T'], mod)
                for (i, x_kind, draw, out, resolved, had_t) in calls:
                    if not resolved or not had_t:
                        continue
                    x = _obj(x_kind, tcls, other)
                    boot.SAMPLER.sticky = draw
                    try:
                        r = twin(x)
                        tout = ['accept', r is x]
                    except BeartypeException as e:
                        tout = ['beartype', type(e).__name__]
                    except Exception as e:      # noqa
                        tout = ['other', type(e).__name__, str(e)[:120]]
                    finally:
                        boot.SAMPLER.sticky = None
                    if tout != out:
                        viol = ('differs_from_evaluated', 'event %d: call with %s under %r (%s, %s): string form %r, evaluated form %r' % (
                            i, x_kind, case['text'], case['placement'], case['style'], out, tout),
                            'differs:' + case['placement'] + ':' + case['style'])
                        break
    finally:
        pass
    return viol


def _out(case, probes, viol, harness=None):
    out = {'digest': kernel.stable_hash([case['placement'], case['style'], case['text'], case['events']]),
           'nontrivial': probes['calls_before_define'] > 0, 'probes': probes, 'stats': {'fwdref': probes['fwdref_exceptions']},
           'violation': None}
    if harness:
        out['harness'] = harness
    if viol:
        out['violation'] = {'kind': viol[0], 'detail': viol[1][:2000], 'key': viol[2]}
    return out


def shrink(case, violation):
    ev = case['events']
    for cand in kernel.drop_chunks(ev, 1):
        yield dict(case, events=cand)
    if case['style'] != 'quoted':
        yield dict(case, style='quoted')


def _sig_closure_fake(case, v):
    if case.get('placement') not in ('closure', 'closure_method'):
        return False
    if v.get('kind') == 'unresolved_not_reported':
        return True
    # second face of the same by-name stand-in: once the name exists, an instance of the (generic-derived) class is accepted
    # whatever it contains, where the evaluated annotation checks the contents
    d = v.get('detail', '')
    return (v.get('kind') == 'differs_from_evaluated' and bool(case.get('flavour')) and 'call with T_bad' in d
            and "string form ['accept', True]" in d and "evaluated form ['beartype', 'BeartypeCallHint" in d)


def _sig_hidden_ref(case, v):
    """Known finding C07-fwdref-hidden-in-ignorable-child: the explanation path meets a quoted name that code generation skipped."""
    d = v.get('detail', '')
    return (v.get('kind') == 'differs_from_evaluated' and ', object]' in case.get('text', '')
            and "string form ['beartype', 'BeartypeDecorHintForwardRefException']" in d
            and ("evaluated form ['beartype', 'BeartypeCallHintParamViolation']" in d
                 or "evaluated form ['beartype', 'BeartypeCallHintReturnViolation']" in d))


SIGNATURES = {'closure_fake_forwardref': _sig_closure_fake, 'fwdref_hidden_in_ignorable_child': _sig_hidden_ref}


def describe(case):
    return {'source': _source(case), 'events': case['events']}
