"""C11 -- only beartype's own exceptions for bad hints; user exceptions pass through.

Fault half (what the technique decides): user callbacks reached during a check --
the wrapped callable, ``Is[...]`` validator callables (also nested under & | ~ and
IsAttr), metaclass ``__instancecheck__`` / ``__subclasscheck__`` hooks, ``__eq__`` of
Literal members -- raise a fresh exception instance on their n-th invocation, n
chosen so that the fault lands in the fast path, in the explanation path (second
evaluation while the message is built) or in a later call. Invariant: the very same
exception object escapes the public call with unchanged args; it is neither wrapped,
replaced by a violation, swallowed into a verdict nor remembered on the next call
with a healthy stub.

Monitored half (input driven; the simulator adds generator and replay only): for a
pool and a grammar (sim/hintjunk.py) of valid, exotic, unsupported, malformed,
unhashable, huge and non-hint objects passed as hints - under four configurations,
each operation performed twice - to @beartype, is_bearable, die_if_unbearable,
TypeHint (and its methods) and is_subhint every
escaping exception is a public beartype.roar exception (decoration-time: Decor
family, call-time: Call family), never a bare TypeError/AttributeError/KeyError/
RecursionError nor an underscore-prefixed internal class; warnings are BeartypeWarning.
"""
import warnings

from sim import entry, kernel

ID = 'C11'
BATCH = True
RULE = ('fault half: seeded (callback site, hint shape around it, exception class, invocation number n in 1..3, entry point, '
        'object conforming or violating); monitored half: (a) 28 named bad-hint factories x 7 APIs, (b) grammar mode: a seeded '
        'tree of 0-3 levels over 50 hint constructors and 125 atoms (ordinary classes, protocols of every kind, typing specials, '
        'PEP 695 aliases, references, non-hint values, unhashable values, hints of 100+ levels / 128+ children) x 9 API routes x '
        '25 checked objects x 4 configurations (default, numeric tower, hint_overrides, warning mode), every operation performed '
        'twice with a freshly built hint. Non-trivial = a fault actually fired inside a beartype frame, or a hint made the API '
        'raise; distinct = distinct (site, shape, class, n, entry) / (hint, api) / (hint tree, api, object, configuration) tuples')
INTERLEAVING_MEASURE = 'distinct fault placements (site, hint shape, exception class, invocation number, entry point)'
COMPONENTS = {
    'real': ['beartype fast path, explanation path, decorator wrappers, hint validation (from /repo working tree)'],
    'stub': ['user callbacks with an injected failure on their n-th invocation', 'hint objects with raising __hash__/__eq__/__repr__', 'sampler draw'],
}
ASSUMPTIONS = ['an exception raised by user code on the hint side (hint.__hash__/__eq__/__repr__) and escaping unchanged counts as pass-through, not as a leak',
               'door functions may raise any public BeartypeException subclass for a bad hint; the Decor/Call split is asserted for @beartype only']
PROBES = ['faults_fired', 'fault_in_explanation_path', 'fault_typeerror', 'healthy_after_fault', 'bad_hint_raised', 'bad_hint_cases', 'fault_cases', 'gram_cases', 'gram_raised', 'gram_unbuildable']


def tiers(tier):
    if tier == 'thorough':
        return {'runs': 300000, 'wall': 600, 'det_runs': 10, 'chunks_per_job': 4}
    return {'runs': 12000, 'wall': 60, 'det_runs': 8}


class UserError(Exception):
    pass


EXC = {'ValueError': ValueError, 'TypeError': TypeError, 'KeyError': KeyError, 'AttributeError': AttributeError,
       'RecursionError': RecursionError, 'UserError': UserError, 'LookupError': LookupError, 'AssertionError': AssertionError}

SITES = ['wrapped', 'is', 'is_and', 'is_or', 'is_not', 'isattr', 'instancecheck', 'subclasscheck', 'literal_eq', 'instancecheck_str']
SHAPES = ['bare', 'list', 'dict_value', 'tuple', 'optional', 'union']
BAD_HINTS = ['int_instance', 'string_nosuch', 'object_instance', 'lambda', 'module', 'literal_unhashable', 'literal_empty_list',
             'annotated_plain_meta', 'final', 'classvar', 'tuple_of_ints', 'dict_instance', 'hash_raises', 'repr_raises', 'eq_raises',
             'set_of_types', 'none_type_instance', 'generic_alias_bad', 'union_with_int', 'callable_bad', 'nested_bad',
             'type_of_int_instance', 'ellipsis', 'notimplemented', 'float_value', 'bytes_value', 'valid_int', 'valid_list']
APIS = ['decorate_param', 'decorate_return', 'is_bearable', 'die_if_unbearable', 'typehint', 'is_subhint_left', 'is_subhint_right']


def generate(rng, run, tier):
    if rng.random() < 0.6:
        return {'mode': 'fault', 'site': rng.choice(SITES), 'shape': rng.choice(SHAPES), 'exc': rng.choice(list(EXC)),
                'n': rng.choice([1, 1, 2, 2, 3]), 'entry': rng.choice(entry.ENTRY_POINTS), 'bad_obj': rng.random() < 0.5,
                'draw': rng.choice([0, 1, 5]), 'conf': rng.choice([{'is_color': False}, {'is_color': False, 'vt': 'warn'},
                                                                     {'is_color': False, 'vt': 'exc'}])}
    if rng.random() < 0.25:
        return {'mode': 'badhint', 'hint': rng.choice(BAD_HINTS), 'api': rng.choice(APIS), 'draw': 0}
    from sim import hintjunk as J
    # avoid switch for known finding C11-deeply-nested-hint: hints nested 100+ levels deep appear only in a small, directed
    # fraction of the cases (J.gen() leaves the 'deep_*' atoms out unless asked)
    deep = rng.random() < 0.04
    hint = J.gen(rng, rng.choice([0, 1, 1, 2, 2, 3]), deep)
    # the second hint of a comparison: unrelated, or (half of the time) the same shape with one atom replaced
    other = J.sibling(rng, hint) if rng.random() < 0.5 else J.gen(rng, rng.choice([0, 0, 1, 2]))
    if rng.random() < 0.05:
        # comparison focus: a user generic against a hint that is related to its container base (both directions)
        a = rng.choice(sorted(J.RELATIVES))
        b = rng.choice(J.RELATIVES[a])
        return {'mode': 'gram', 'hint': {'a': a}, 'other': {'a': b}, 'api': rng.choice(['is_subhint_left', 'is_subhint_right', 'typehint_cmp']),
                'obj': 'int1', 'draw': 0, 'gconf': None}
    if rng.random() < 0.08:
        # comparison focus: two hints of one family that has its own subhint code, over odd arguments
        fam = rng.choice(['Literal', 'Literal', 'Callable1', 'CallableE', 'tuple2', 'tuple_var', 'Annotated_is', 'GenericK', 'Union', 'type'])
        odd = ['v_list_types', 'v_dict', 'v_set', 'v_empty_list', 'v_3', 'v_true', 'v_enum_member', 'v_bytes', 'None', 'int', 'str',
               'DataProto', 'NonRuntimeProto', 'T', 'Ts', 'P', 'Any', 'Never', 's_nosuch', 'AlRec', 'Literal_1', 'Literal_mixed']
        hint = {'c': fam, 'k': [{'a': rng.choice(odd)} for _ in range(J.CTORS[fam][0])]}
        other = {'c': fam, 'k': [{'a': rng.choice(odd)} for _ in range(J.CTORS[fam][0])]}
        return {'mode': 'gram', 'hint': hint, 'other': other, 'api': rng.choice(['is_subhint_left', 'is_subhint_right', 'typehint_cmp']),
                'obj': 'int1', 'draw': 0, 'gconf': None}
    return {'mode': 'gram', 'hint': hint, 'other': other,
            'api': rng.choice(GRAM_APIS), 'obj': rng.choice(list(J.OBJECTS)), 'draw': rng.choice([0, 1, 7]),
            'gconf': rng.choice([None, None, 'tower', 'overrides', 'warn'])}


# ------------------------------------------------------------------ fault half
class Fault:
    def __init__(self, exc_name, n):
        self.exc_cls = EXC[exc_name]
        self.n = n
        self.calls = 0
        self.raised = None
        self.where = None
        self.probe_calls = 0

    def tick(self):
        import sys
        f = sys._getframe(2)
        names = []
        while f is not None and len(names) < 40:
            names.append(f.f_code.co_filename.rsplit('/', 1)[-1])
            if 'isinstanceable' in f.f_code.co_name or 'issubclassable' in f.f_code.co_name:
                # beartype probing at hint-validation time whether the class can be used with isinstance()/issubclass():
                # a hook raising there is (documentedly) reported as an invalid hint; the fault is aimed at call-time checks
                self.probe_calls += 1
                return
            f = f.f_back
        self.calls += 1
        if self.calls == self.n:
            self.raised = self.exc_cls('injected fault #%d' % self.n)
            self.where = 'explanation' if any(n.startswith('err') or 'error' in n for n in names) else 'fastpath'
            raise self.raised


def _build_fault_hint(case, fault):
    """Returns (hint, good_obj, bad_obj) where checking either object reaches the faulty callback."""
    import typing
    from typing import Annotated, Literal, Optional, Union
    from beartype.vale import Is, IsAttr
    site = case['site']

    def pred(x):
        fault.tick()
        return isinstance(x, int) and x > 0

    def pred2(x):
        return True
    if site == 'wrapped':
        core, good, bad = int, 3, 'x'
    elif site == 'is':
        core, good, bad = Annotated[int, Is[pred]], 3, -3
    elif site == 'is_and':
        core, good, bad = Annotated[int, Is[pred2] & Is[pred]], 3, -3
    elif site == 'is_or':
        core, good, bad = Annotated[int, Is[pred] | Is[lambda x: False]], 3, -3
    elif site == 'is_not':
        core, good, bad = Annotated[int, ~Is[pred]], -3, 3
    elif site == 'isattr':
        core, good, bad = Annotated[int, IsAttr['real', Is[pred]]], 3, -3
    elif site in ('instancecheck', 'subclasscheck'):
        class Meta(type):
            def __instancecheck__(cls, obj):
                fault.tick()
                return type.__instancecheck__(cls, obj)

            def __subclasscheck__(cls, sub):
                fault.tick()
                return type.__subclasscheck__(cls, sub)

        class Hooked(metaclass=Meta):
            pass

        class Sub(Hooked):
            pass
        if site == 'instancecheck':
            core, good, bad = Hooked, Sub(), 5
        else:
            core, good, bad = typing.Type[Hooked], Sub, int
    elif site == 'instancecheck_str':
        # beartype's plugin hook: a metaclass method that words the explanation of a failed isinstance() check
        class MetaStr(type):
            def __instancecheck_str__(cls, obj):
                fault.tick()
                return '%r is not one of mine' % (obj,)

        class Worded(metaclass=MetaStr):
            pass
        core, good, bad = Worded, Worded(), 5
    elif site == 'literal_eq':
        class Eq:
            def __eq__(self, other):
                fault.tick()
                return other is self

            def __hash__(self):
                return 1
        import enum

        class Col(enum.Enum):
            R = 1
        core, good, bad = Literal[Col.R], Col.R, 3
        # Literal members are compared with ==; make the *object* carry the faulty __eq__
        good, bad = Col.R, Eq()
    else:
        raise ValueError(site)
    shape = case['shape']
    if shape == 'bare' or site == 'wrapped':
        return core, good, bad
    if shape == 'list':
        return list[core], [good], [bad]
    if shape == 'dict_value':
        return dict[str, core], {'k': good}, {'k': bad}
    if shape == 'tuple':
        return tuple[int, core], (1, good), (1, bad)
    if shape == 'optional':
        return Optional[core], good, bad
    return Union[core, bytes], good, bad


def _run_fault(case):
    import beartype.roar as roar
    from beartype import beartype, door
    from sim import boot, ops
    probes = {k: 0 for k in PROBES}
    probes['fault_cases'] = 1
    fault = Fault(case['exc'], case['n'])
    hint, good, bad = _build_fault_hint(case, fault)
    conf = ops.build_conf(case['conf'])
    x = bad if case['bad_obj'] else good
    ep = case['entry']
    boot.SAMPLER.sticky = case['draw']
    wrapped_fault = case['site'] == 'wrapped'

    def make_call():
        if ep in ('param', 'return') or wrapped_fault:
            def f(a):
                if wrapped_fault:
                    fault.tick()
                return a
            f.__annotations__ = {'a': hint} if ep != 'return' else {'return': hint}
            g = beartype(conf=conf)(f)
            return lambda v: g(v)
        if ep == 'is_bearable':
            return lambda v: door.is_bearable(v, hint, conf=conf)
        if ep == 'die_if_unbearable':
            return lambda v: door.die_if_unbearable(v, hint, conf=conf)
        th = door.TypeHint(hint)
        if ep == 'typehint_is_bearable':
            return lambda v: th.is_bearable(v, conf=conf)
        return lambda v: th.die_if_unbearable(v, conf=conf)
    viol = None
    try:
        with warnings.catch_warnings():
            warnings.simplefilter('ignore')
            try:
                call = make_call()
            except BaseException as e:      # noqa
                if fault.raised is not None and e is fault.raised:
                    call = None
                else:
                    return probes, ('unexpected_exception', 'building the checker raised %s: %s' % (type(e).__name__, str(e)[:200]), 'build')
            outcomes = []
            for attempt in range(4):
                if call is None:
                    break
                before = fault.raised
                try:
                    r = call(x if not wrapped_fault else good)
                    out = ('ok', r)
                except BaseException as e:      # noqa
                    out = ('exc', e)
                fired_now = fault.raised is not None and fault.raised is not before
                if fired_now:
                    probes['faults_fired'] += 1
                    if fault.where == 'explanation':
                        probes['fault_in_explanation_path'] += 1
                    if case['exc'] == 'TypeError':
                        probes['fault_typeerror'] += 1
                    e = out[1] if out[0] == 'exc' else None
                    if e is not fault.raised:
                        what = ('returned %r' % (out[1],)) if out[0] == 'ok' else ('raised %s: %s' % (type(e).__name__, str(e)[:200]))
                        viol = ('user_exception_not_propagated',
                                'attempt %d: callback %s raised %s (invocation %d, %s) but the public call %s %s' % (
                                    attempt, case['site'], case['exc'], case['n'], fault.where, ep, what),
                                'swallowed:' + case['site'] + ':' + case['exc'] + ':' + str(fault.where) + ':' + ('ok' if out[0] == 'ok' else type(e).__name__))
                        break
                    if e.args != ('injected fault #%d' % case['n'],):
                        viol = ('user_exception_modified', 'args changed to %r' % (e.args,), 'modified:' + case['site'])
                        break
                else:
                    # no fault in this attempt: the outcome must be an ordinary verdict, never the old exception again
                    if out[0] == 'exc':
                        e = out[1]
                        if fault.raised is not None and (e is fault.raised or type(e) is fault.exc_cls and 'injected fault' in str(e)):
                            viol = ('fault_remembered', 'attempt %d: the exception injected earlier came back although the callback is healthy now' % attempt,
                                    'remembered:' + case['site'] + ':' + case['exc'])
                            break
                        if not isinstance(e, roar.BeartypeCallHintViolation) and type(e) not in (ops.UserViolation,):
                            viol = ('unexpected_exception', 'attempt %d: healthy callback, %s raised %s: %s' % (
                                attempt, ep, type(e).__name__, str(e)[:200]), 'healthy_exc:' + type(e).__name__)
                            break
                    if fault.raised is not None:
                        probes['healthy_after_fault'] += 1
                outcomes.append(out[0])
    finally:
        boot.SAMPLER.sticky = None
    return probes, viol


# ------------------------------------------------------------------ monitored half
class _HashRaises:
    def __init__(self, exc):
        self.exc = exc

    def __hash__(self):
        raise self.exc

    def __eq__(self, o):
        return self is o


class _ReprRaises:
    def __init__(self, exc):
        self.exc = exc

    def __repr__(self):
        raise self.exc


class _EqRaises:
    def __init__(self, exc):
        self.exc = exc

    def __eq__(self, o):
        raise self.exc

    def __hash__(self):
        return 3


def _bad_hint(name, marker):
    import sys as _sys
    import typing
    from typing import Annotated, Literal
    if name == 'int_instance':
        return 3
    if name == 'string_nosuch':
        return 'NoSuchNameAnywhere'
    if name == 'object_instance':
        return object()
    if name == 'lambda':
        return lambda x: x
    if name == 'module':
        return _sys
    if name == 'literal_unhashable':
        return Literal[[1]]         # typing accepts it; the member is unhashable
    if name == 'literal_empty_list':
        return Literal[{}]
    if name == 'annotated_plain_meta':
        return Annotated[int, 'meta']
    if name == 'final':
        return typing.Final
    if name == 'classvar':
        return typing.ClassVar[int]
    if name == 'tuple_of_ints':
        return (1, 2)
    if name == 'dict_instance':
        return {'a': int}
    if name == 'hash_raises':
        return _HashRaises(marker)
    if name == 'repr_raises':
        return _ReprRaises(marker)
    if name == 'eq_raises':
        return _EqRaises(marker)
    if name == 'set_of_types':
        return {int, str}
    if name == 'none_type_instance':
        return NotImplemented
    if name == 'generic_alias_bad':
        return list[3]
    if name == 'union_with_int':
        return typing.Union[int, typing.List[3]]
    if name == 'callable_bad':
        return typing.Callable[[3], 4]
    if name == 'nested_bad':
        return dict[str, list[object()]]
    if name == 'type_of_int_instance':
        return type[3]
    if name == 'ellipsis':
        return ...
    if name == 'notimplemented':
        return NotImplemented
    if name == 'float_value':
        return 1.5
    if name == 'bytes_value':
        return b'int'
    if name == 'valid_int':
        return int
    if name == 'valid_list':
        return list[int]
    raise ValueError(name)


def _run_badhint(case):
    import beartype.roar as roar
    from beartype import beartype, door
    probes = {k: 0 for k in PROBES}
    probes['bad_hint_cases'] = 1
    marker = UserError('hint-side user exception')
    viol = None
    api = case['api']
    stage = 'decoration' if api.startswith('decorate') else 'door'
    with warnings.catch_warnings(record=True) as wlist:
        warnings.simplefilter('always')
        try:
            hint = _bad_hint(case['hint'], marker)
        except BaseException as e:      # noqa  (Python itself refused to build it: nothing to test)
            return probes, None
        try:
            if api.startswith('decorate'):
                def f(a):
                    return a
                f.__annotations__ = {'a': hint} if api == 'decorate_param' else {'return': hint}
                g = beartype(f)
                stage = 'call'
                g(1)
            elif api == 'is_bearable':
                door.is_bearable(1, hint)
            elif api == 'die_if_unbearable':
                door.die_if_unbearable(1, hint)
            elif api == 'typehint':
                door.TypeHint(hint)
            elif api == 'is_subhint_left':
                door.is_subhint(hint, int)
            else:
                door.is_subhint(int, hint)
        except BaseException as e:      # noqa
            probes['bad_hint_raised'] = 1
            if e is marker:
                pass        # user code on the hint side, propagated unchanged
            elif isinstance(e, roar.BeartypeCallHintViolation):
                pass        # a plain rejection of the object 1 (the hint was acceptable)
            else:
                name = type(e).__name__
                public = isinstance(e, roar.BeartypeException) and not name.startswith('_') and hasattr(roar, name)
                if not public:
                    viol = ('leaked_exception', '%s with hint %s (%r) at %s time raised %s: %s' % (
                        api, case['hint'], _safe_repr(hint), stage, name, str(e)[:300]), 'leak:' + name + ':' + case['hint'])
                elif stage == 'decoration' and not isinstance(e, roar.BeartypeDecorException):
                    viol = ('wrong_family', '%s with hint %s raised %s at decoration time (not a BeartypeDecorException)' % (
                        api, case['hint'], name), 'family_decor:' + name)
                elif stage == 'call' and not isinstance(e, (roar.BeartypeCallException,)):
                    viol = ('wrong_family', '%s with hint %s raised %s at call time (not a BeartypeCallException)' % (
                        api, case['hint'], name), 'family_call:' + name)
    if viol is None:
        for w in wlist:
            if not issubclass(w.category, roar.BeartypeWarning) and 'beartype' in (w.filename or ''):
                viol = ('foreign_warning', '%s with hint %s emitted %s: %s' % (api, case['hint'], w.category.__name__, str(w.message)[:200]),
                        'warning:' + w.category.__name__)
                break
    return probes, viol


# names that the grammar's string hints refer to (see sim/hintjunk.py): string hints are resolved against this module
from sim.hintjunk import FwdAny, FwdObject, FwdInt, FwdListInt, FwdOptional  # noqa: E402,F401

GRAM_APIS = ['decorate_param', 'decorate_return', 'is_bearable', 'die_if_unbearable', 'typehint_use', 'is_subhint_left',
             'is_subhint_right', 'is_subhint_self', 'decorate_both', 'typehint_cmp']


def _site(e):
    """(innermost beartype frame, innermost frame) of the traceback: names the leak independently of the input."""
    tb = e.__traceback__
    last_bt = None
    last = None
    while tb is not None:
        co = tb.tb_frame.f_code
        fn = co.co_filename
        base = fn.rsplit('/', 1)[-1]
        if '/beartype/' in fn and '/verif/' not in fn:
            last_bt = '%s:%s' % (base, co.co_name)
        if '/verif/' not in fn:
            last = '%s:%s' % (base, co.co_name)
        tb = tb.tb_next
    return '%s<-%s' % (last, last_bt) if last != last_bt else str(last_bt)


def _run_gram(case):
    import beartype.roar as roar
    from beartype import BeartypeConf, beartype, door
    from sim import boot, hintjunk as J
    probes = {k: 0 for k in PROBES}
    probes['gram_cases'] = 1
    api = case['api']
    build_warnings = []
    try:
        # (building a hint may already run beartype code - typing hashes / reprs the validators it is given - and beartype
        # code may warn there: warnings are recorded from here on)
        with warnings.catch_warnings(record=True) as build_warnings:
            warnings.simplefilter('always')
            hint = J.build(case['hint'])
            other = J.build(case['other']) if api in ('is_subhint_left', 'is_subhint_right', 'typehint_cmp') else None
    except J.Unbuildable:
        probes['gram_unbuildable'] = 1
        return probes, None
    x = J.OBJECTS[case['obj']]()
    boot.SAMPLER.sticky = case.get('draw', 0)
    viol = None
    gconf = case.get('gconf')
    if gconf == 'tower':
        conf = BeartypeConf(is_pep484_tower=True, is_color=False)
    elif gconf == 'overrides':
        from beartype import FrozenDict
        import typing as _t
        conf = BeartypeConf(hint_overrides=FrozenDict({bytes: _t.Union[bytes, bytearray]}), is_color=False)
    elif gconf == 'warn':
        conf = BeartypeConf(violation_type=UserWarning, is_color=False)
    else:
        conf = BeartypeConf(is_color=False)
    stage = 'door'
    with warnings.catch_warnings(record=True) as wlist:
        warnings.simplefilter('always')
        # the operation is performed twice, the second time with a freshly built (equal, distinct) hint object: a leak may
        # depend on what an earlier call left behind in beartype's caches
        for attempt in (1, 2):
            stage = 'decoration' if api.startswith('decorate') else 'door'
            if attempt == 2:
                try:
                    hint = J.build(case['hint'])
                    other = J.build(case['other']) if api in ('is_subhint_left', 'is_subhint_right', 'typehint_cmp') else None
                except J.Unbuildable:
                    break
            try:
                if api.startswith('decorate'):
                    def f(a):
                        return a
                    if api == 'decorate_param':
                        f.__annotations__ = {'a': hint}
                    elif api == 'decorate_return':
                        f.__annotations__ = {'return': hint}
                    else:
                        f.__annotations__ = {'a': hint, 'return': hint}
                    g = beartype(conf=conf)(f)
                    stage = 'call'
                    g(x)
                elif api == 'is_bearable':
                    door.is_bearable(x, hint, conf=conf)
                elif api == 'die_if_unbearable':
                    door.die_if_unbearable(x, hint, conf=conf)
                elif api == 'typehint_use':
                    th = door.TypeHint(hint)
                    repr(th)
                    len(th)
                    list(th)
                    th == th
                    try:
                        hash(th)
                    except TypeError:
                        pass        # (TypeError is what Python prescribes for hash() of a wrapper around an unhashable hint)
                    th.is_ignorable
                    th.is_bearable(x)
                elif api == 'typehint_cmp':
                    ta, tb = door.TypeHint(hint), door.TypeHint(other)
                    ta == tb
                    ta != tb
                    ta <= tb
                    ta < tb
                    ta >= tb
                    ta > tb
                    ta.is_superhint(tb)
                elif api == 'is_subhint_left':
                    door.is_subhint(hint, other)
                elif api == 'is_subhint_right':
                    door.is_subhint(other, hint)
                else:
                    door.is_subhint(hint, hint)     # (reflexivity itself belongs to C19; only exceptions matter here)
            except BaseException as e:      # noqa
                probes['gram_raised'] = 1
                if isinstance(e, roar.BeartypeCallHintViolation):
                    continue        # a plain rejection of the object
                name = type(e).__name__
                public = isinstance(e, roar.BeartypeException) and not name.startswith('_') and hasattr(roar, name)
                if not public:
                    site = _site(e)
                    viol = ('leaked_exception', '%s(%s)%s with hint %s (%s)%s at %s time raised %s: %s   [raised in %s]' % (
                        api, case['obj'], ' [second call]' if attempt == 2 else '', J.show(case['hint']), _safe_repr(hint),
                        ' conf=%s' % gconf if gconf else '', stage, name, str(e)[:300], site),
                        'leak:%s:%s' % (name, site))
                elif stage == 'decoration' and not isinstance(e, roar.BeartypeDecorException):
                    viol = ('wrong_family', '%s with hint %s raised %s at decoration time (not a BeartypeDecorException): %s' % (
                        api, J.show(case['hint']), name, str(e)[:200]), 'family_decor:' + name)
                elif stage == 'call' and not isinstance(e, (roar.BeartypeCallException,)):
                    viol = ('wrong_family', '%s with hint %s raised %s at call time (not a BeartypeCallException): %s' % (
                        api, J.show(case['hint']), name, str(e)[:400]), 'family_call:' + name)
                if viol:
                    break
    if viol is None:
        for w in list(build_warnings) + list(wlist):
            if issubclass(w.category, roar.BeartypeWarning):
                continue
            if issubclass(w.category, (DeprecationWarning, PendingDeprecationWarning, SyntaxWarning)) and '/beartype/' not in (w.filename or ''):
                continue        # the standard library speaking about the hint the user wrote
            if gconf == 'warn' and w.category is UserWarning and 'violates type hint' in str(w.message):
                continue        # the violation itself, issued under the configured class
            # everything else was issued by beartype (whatever frame the stack level attributes it to): it must be a
            # BeartypeWarning
            viol = ('foreign_warning', '%s with hint %s emitted %s: %s' % (api, J.show(case['hint']), w.category.__name__, str(w.message)[:200]),
                    'warning:' + w.category.__name__)
            break
    return probes, viol


def _safe_repr(o):
    try:
        return repr(o)[:80]
    except BaseException:       # noqa
        return '<unreprable>'


def execute(case):
    from sim import boot
    boot.SAMPLER.reset()
    if case['mode'] == 'fault':
        probes, viol = _run_fault(case)
    elif case['mode'] == 'gram':
        probes, viol = _run_gram(case)
    else:
        probes, viol = _run_badhint(case)
    out = {'digest': kernel.stable_hash(case), 'nontrivial': bool(probes['faults_fired'] or probes['bad_hint_raised'] or probes['gram_raised']),
           'probes': probes, 'stats': {'cb_raise': probes['faults_fired']}, 'violation': None}
    if viol:
        out['violation'] = {'kind': viol[0], 'detail': viol[1][:2000], 'key': viol[2]}
    return out


def shrink(case, violation):
    if case['mode'] == 'fault':
        if case['shape'] != 'bare':
            yield dict(case, shape='bare')
        if case['conf'] != {'is_color': False}:
            yield dict(case, conf={'is_color': False})
        if case['n'] > 1:
            yield dict(case, n=case['n'] - 1)
    elif case['mode'] == 'gram':
        from sim import hintjunk as J
        for t in J.shrinks(case['hint']):
            yield dict(case, hint=t)
        if case['api'] in ('is_subhint_left', 'is_subhint_right', 'typehint_cmp'):
            for t in J.shrinks(case['other']):
                yield dict(case, other=t)
            if case['other'] != {'a': 'int'}:
                yield dict(case, other={'a': 'int'})
        if case['obj'] != 'int1':
            yield dict(case, obj='int1')
        if case.get('draw'):
            yield dict(case, draw=0)
        if case.get('gconf'):
            yield dict(case, gconf=None)


def _sig_deep(case, v):
    """Known finding C11-deeply-nested-hint: a hint nested 100+ levels deep overflows Python's parser / recursion limit."""
    if case.get('mode') != 'gram' or v.get('kind') != 'leaked_exception':
        return False
    from sim import hintjunk as J
    if not (J.mentions(case['hint'], J.DEEP_ATOMS) or J.mentions(case.get('other') or {'a': 'int'}, J.DEEP_ATOMS)):
        return False
    key = v.get('key', '')
    return key.startswith('leak:RecursionError:') or key.startswith('leak:_BeartypeUtilCallableException:utilfuncmake.py:make_func')


def _sig_alias_unhashable(case, v):
    """Known finding C11-pep695-alias-unhashable-arg: recursion guard keyed by the (unhashable) subscripted alias."""
    return (case.get('mode') == 'gram' and v.get('kind') == 'leaked_exception' and v.get('key', '').startswith('leak:TypeError:')
            and v.get('key', '').endswith(('_redrecurse.py:make_hint_sane_recursable', '_redrecurse.py:is_hint_recursive'))
            and 'unhashable' in v.get('detail', ''))


def _sig_scope_not_propagated(case, v):
    """Known finding C11-fwdref-scope-not-propagated (same defect as C07-fwdref-hidden-in-ignorable-child)."""
    return (case.get('mode') == 'gram' and v.get('kind') == 'wrong_family'
            and 'BeartypeDecorHintForwardRefException at call time' in v.get('detail', '')
            and 'forward refere' in v.get('detail', ''))


SIGNATURES = {'deeply_nested_hint': _sig_deep, 'pep695_alias_unhashable_arg': _sig_alias_unhashable,
              'fwdref_scope_not_propagated': _sig_scope_not_propagated}


def describe(case):
    return dict(case)
