"""C18 -- hint-rewriting options behave exactly like rewriting the hints by hand.

Simulated nondeterminism: the sampler draw, shared between the two sides of each
comparison (without it the two sides would sample different items). For every
draw: (a) conf(is_pep484_tower=True) on H  vs  default conf on H[float -> float|int,
complex -> complex|float|int]; (b) conf(hint_overrides={A: B}) on H  vs  default
conf on H[A -> B]; (c) any violation_*type setting vs default: same verdict, only
the class of the signal differs. All six entry points; a rejection must be
explainable on both sides (no desynchronisation on the rewritten side only).
"""
from sim import entry
from sim import hints as H
from sim import kernel
from props import c03

ID = 'C18'
BATCH = True
RULE = ('seeded hints containing float / complex / overridden classes at generated depths inside every container family, '
        'arbitrary / conforming / violating objects biased towards int-for-float items, 3-10 draws per case, six entry '
        'points, three rewrite kinds (tower, overrides, violation types). Non-trivial = the rewritten hint differs from '
        'the original below the top level or the verdict depends on the draw; distinct = distinct (hint, object, kind)')
INTERLEAVING_MEASURE = 'distinct (hint, object, rewrite kind) triples; draws enumerated per triple'
COMPONENTS = c03.COMPONENTS
ASSUMPTIONS = ['hand-rewriting replaces the class leaves of the hint DSL; Literal members, validators and TypeVar bounds are not rewritten '
               '(hint_overrides keys are compared by hint equality, so only whole child hints equal to a key are replaced)']
PROBES = ['tower_cases', 'override_cases', 'vtype_cases', 'combined_option_cases', 'plain_conf_same_hint', 'rewrite_below_top', 'verdict_depends_on_draw', 'rejections_both_sides']

TOWER = {'float': {'k': 'pipe', 'a': [{'k': 'cls', 'n': 'float'}, {'k': 'cls', 'n': 'int'}]},
         'complex': {'k': 'pipe', 'a': [{'k': 'cls', 'n': 'complex'}, {'k': 'cls', 'n': 'float'}, {'k': 'cls', 'n': 'int'}]}}
OVERRIDES = [
    [{'k': 'cls', 'n': 'str'}, {'k': 'union', 'a': [{'k': 'cls', 'n': 'str'}, {'k': 'cls', 'n': 'bytes'}]}],
    [{'k': 'cls', 'n': 'A'}, {'k': 'union', 'a': [{'k': 'cls', 'n': 'A'}, {'k': 'cls', 'n': 'C'}]}],
    [{'k': 'cls', 'n': 'int'}, {'k': 'union', 'a': [{'k': 'cls', 'n': 'int'}, {'k': 'cls', 'n': 'float'}]}],
    [{'k': 'cls', 'n': 'bytes'}, {'k': 'cls', 'n': 'object'}],
    # class to unrelated class; class to a hint that mentions the class below the top level (replaced once, not again inside)
    [{'k': 'cls', 'n': 'C'}, {'k': 'cls', 'n': 'B'}],
    # the literal None as the replacement hint (PEP 484: None means type(None))
    [{'k': 'cls', 'n': 'bytes'}, {'k': 'none'}], [{'k': 'cls', 'n': 'A'}, {'k': 'none'}],
    [{'k': 'cls', 'n': 'int'}, {'k': 'seq', 'o': 'list', 'a': [{'k': 'cls', 'n': 'int'}]}],
    [{'k': 'cls', 'n': 'str'}, {'k': 'opt', 'a': [{'k': 'vtuple', 'a': [{'k': 'cls', 'n': 'str'}], 't': False}]}],
]


def tiers(tier):
    if tier == 'thorough':
        return {'runs': 400000, 'wall': 900, 'det_runs': 20, 'chunks_per_job': 4}
    return {'runs': 10000, 'wall': 70, 'det_runs': 10}


def rewrite(h, mapping, depth=0, hits=None):
    """Hand-rewrite: replace every class leaf named in ``mapping``."""
    if h['k'] == 'cls' and h['n'] in mapping:
        if hits is not None:
            hits.append(depth)
        return mapping[h['n']]
    out = dict(h)
    if h.get('a'):
        out['a'] = [rewrite(a, mapping, depth + 1, hits) if isinstance(a, dict) else a for a in h['a']]
    return out


# TypeVar bounds / constraints and NewType supertypes are occurrences of a class too (beartype rewrites them, as the
# property demands); the hand-rewriting below works on the hint DSL and cannot rebuild those objects, so hints that
# mention them are generated for the tower kind only (no fixture TypeVar / NewType mentions float or complex).
FAMILIES_NO_TV = ['union', 'opt', 'pipe', 'lit', 'tuple', 'vtuple', 'seq', 'set', 'map', 'counter', 'iter', 'type', 'ann',
                  'proto', 'gen', 'shallow', 'leaf']


def _under_type(h, name, inside=False):
    """Does the class ``name`` occur below a type[...] node?"""
    if h['k'] == 'cls':
        return inside and h['n'] == name
    return any(_under_type(a, name, inside or h['k'] == 'type') for a in h.get('a', []) or [] if isinstance(a, dict))


def _opaque_exo(h):
    # (Shelf: its base class mentions int, an occurrence the hand-rewrite on the DSL cannot reach)
    return (h['k'] == 'exo' and h.get('n') != 'TypedDict') or (h['k'] == 'gen' and h.get('n') in ('Shelf', 'IntTable')) or any(_opaque_exo(a) for a in h.get('a', []) or [] if isinstance(a, dict))


def _mentions_exo(h, name):
    return (h['k'] == 'exo' and h.get('n') == name) or any(_mentions_exo(a, name) for a in h.get('a', []) or [] if isinstance(a, dict))


def _mentions_kind(h, kind):
    return h['k'] == kind or any(_mentions_kind(a, kind) for a in h.get('a', []) or [] if isinstance(a, dict))


def _has_tv(h):
    if h['k'] in ('tv', 'newtype'):
        return True
    return any(_has_tv(a) for a in h.get('a', []) or [] if isinstance(a, dict))


def _bias_hint(rng, names, no_tv=False):
    """A hint guaranteed to mention one of ``names`` somewhere."""
    for _ in range(40):
        h = H.gen_hint(rng, rng.choice([1, 2, 3]), families=FAMILIES_NO_TV if no_tv else None)
        if no_tv and _has_tv(h):
            continue
        if _opaque_exo(h):
            continue        # classes inside these hints are occurrences too, but the hand-rewrite on the DSL cannot reach them
        hits = []
        rewrite(h, {n: {'k': 'any'} for n in names}, 0, hits)
        if hits:
            return h
    leaf = {'k': 'cls', 'n': rng.choice(names)}
    wrap = rng.choice(['seq', 'map', 'tuple', 'opt', 'set', None])
    if wrap == 'seq':
        return {'k': 'seq', 'o': 'list', 'a': [leaf]}
    if wrap == 'map':
        return {'k': 'map', 'o': 'dict', 'a': [{'k': 'cls', 'n': 'str'}, leaf]}
    if wrap == 'tuple':
        return {'k': 'tuple', 'a': [leaf, {'k': 'cls', 'n': 'str'}]}
    if wrap == 'opt':
        return {'k': 'opt', 'a': [leaf]}
    if wrap == 'set':
        return {'k': 'set', 'o': 'frozenset', 'a': [leaf]}
    return leaf


def _gen_combo(rng):
    """Several rewriting options in one configuration: the numeric tower together with hint_overrides that spell out one or
    both of the tower's own replacements and / or override an unrelated class; or two unrelated overrides at once."""
    tower = rng.random() < 0.8
    pairs = []
    mapping = {}
    if tower:
        mapping.update(TOWER)
        for n in {'none': [], 'float': ['float'], 'complex': ['complex'], 'both': ['float', 'complex']}[
                rng.choice(['none', 'float', 'float', 'complex', 'complex', 'both'])]:
            pairs.append([{'k': 'cls', 'n': n}, TOWER[n]])
    plain = [ov for ov in OVERRIDES if ov[0]['n'] in ('str', 'A', 'bytes', 'C') and ov[1]['k'] in ('cls', 'union')]
    extra = rng.sample(plain, rng.choice([0, 1, 1]) if tower else 2)
    keys = set()
    for ov in extra:
        if ov[0]['n'] in keys or any(ov[0]['n'] in repr(o2[1]) or o2[0]['n'] in repr(ov[1]) for o2 in extra if o2 is not ov):
            continue        # (one replacement per class; no override whose replacement mentions another overridden class)
        keys.add(ov[0]['n'])
        pairs.append(ov)
        mapping[ov[0]['n']] = ov[1]
    if not mapping:
        tower = True
        mapping.update(TOWER)
    rng.shuffle(pairs)
    names = sorted(mapping)
    h = None
    for _ in range(30):
        # a hint that mentions at least two of the rewritten classes wherever possible
        a, b = _bias_hint(rng, names, no_tv=bool(keys)), _bias_hint(rng, names, no_tv=bool(keys))
        h = rng.choice([{'k': 'tuple', 'a': [a, b]}, {'k': 'union', 'a': [a, b]}, {'k': 'map', 'o': 'dict', 'a': [{'k': 'cls', 'n': 'str'}, {'k': 'tuple', 'a': [a, b]}]}, a])
        if any(_under_type(h, n) for n in names):
            continue
        break
    return h, mapping, pairs, tower


def generate(rng, run, tier):
    kind = rng.choice(['tower', 'tower', 'override', 'override', 'vtype', 'combo'])
    combo = None
    if kind == 'combo':
        h, mapping, pairs, tower = _gen_combo(rng)
        combo = {'tower': tower, 'pairs': pairs, 'mapping': mapping}
        ov = None
    elif kind == 'tower':
        h = _bias_hint(rng, ['float', 'complex'])
        mapping = TOWER
        ov = None
    elif kind == 'override':
        ov = rng.choice(OVERRIDES)
        for _ in range(30):
            h = _bias_hint(rng, [ov[0]['n']], no_tv=True)
            # type[K] with K overridden by something that is not a class (type[list[int]]) has no checkable meaning
            if ov[1]['k'] not in ('cls', 'union') and _under_type(h, ov[0]['n']):
                continue
            # avoid switch: known finding C18-counter-implicit-int-overridden (most cases steer around it)
            if ov[0]['n'] == 'int' and ov[1]['k'] == 'seq' and _mentions_kind(h, 'counter') and rng.random() < 0.9:
                continue
            if ov[0]['n'] == 'str' and ov[1]['k'] == 'opt' and _mentions_exo(h, 'TypedDict') and rng.random() < 0.9:
                continue
            break
        else:
            h = {'k': 'seq', 'o': 'list', 'a': [ov[0]]}
        mapping = {ov[0]['n']: ov[1]}
    else:
        h = H.gen_hint(rng, rng.choice([1, 2, 3]))
        mapping = {}
        ov = None
    h2 = rewrite(h, mapping)
    # objects: conforming to the rewritten hint (e.g. ints where floats are named), violating it, or arbitrary
    o = None
    r = rng.random()
    try:
        if r < 0.45:
            o = H.gen_conforming(rng, h2)
        elif r < 0.8:
            o = H.gen_violating(rng, h2)[0]
    except H.CannotGenerate:
        o = None
    if o is None and r < 0.9:
        # a sampled sequence of the hint with exactly one bad item: the verdict depends on the draw, on both sides alike
        try:
            lh, lh2 = {'k': 'seq', 'o': 'list', 'a': [h]}, {'k': 'seq', 'o': 'list', 'a': [h2]}
            o, _ = H.gen_one_bad(rng, lh2)
            h, h2 = lh, lh2
        except H.CannotGenerate:
            o = None
    if o is None:
        o = H.gen_any_obj(rng, 2)
    base = {'is_color': False}
    if rng.random() < 0.2:
        base['is_random'] = False
    vt = None
    if kind == 'vtype' or rng.random() < 0.2:
        vt = rng.choice([{'vt': 'exc'}, {'vt': 'warn'}, {'vdoor': 'valueerror'}, {'vparam': 'warn'}, {'vreturn': 'exc'},
                         {'vt': 'valueerror', 'vparam': 'warn'}])
    return {'kind': kind, 'h': h, 'h2': h2, 'x': o, 'override': ov, 'base': base, 'vt': vt, 'combo': combo,
            'draws': c03.draws_for(rng, o, h2),
            # the *unrewritten* hint is also checked under the plain configuration in the same process, before or after the
            # option side: whatever one configuration caches for a hint must not be served to the other
            'plain': rng.choice([None, 'first', 'first', 'last'])}


def execute(case):
    from sim import boot
    boot.SAMPLER.reset()
    probes = {k: 0 for k in PROBES}
    kind = case['kind']
    probes[{'tower': 'tower_cases', 'override': 'override_cases', 'vtype': 'vtype_cases', 'combo': 'combined_option_cases'}[kind]] = 1
    hits = []
    if kind == 'combo':
        rewrite(case['h'], case['combo']['mapping'], 0, hits)
    elif kind == 'tower':
        rewrite(case['h'], TOWER, 0, hits)
    elif kind == 'override':
        rewrite(case['h'], {case['override'][0]['n']: case['override'][1]}, 0, hits)
    if any(d > 0 for d in hits):
        probes['rewrite_below_top'] = 1
    hint1 = H.build_hint(case['h'])
    hint2 = H.build_hint(case['h2'])
    conf1 = dict(case['base'])
    conf2 = dict(case['base'])
    if kind == 'combo':
        if case['combo']['tower']:
            conf1['tower'] = True
        if case['combo']['pairs']:
            conf1['overrides'] = case['combo']['pairs']
    elif kind == 'tower':
        conf1['tower'] = True
    elif kind == 'override':
        conf1['overrides'] = [case['override']]
    if case.get('vt'):
        conf1.update(case['vt'])        # side 1 also changes the signal class; the verdict must not move
    plain = case.get('plain') if kind in ('tower', 'override', 'combo') else None
    p0 = None
    try:
        if plain == 'first':
            p0 = entry.Prepared(hint1, conf2)
            for draw in case['draws'][:2]:
                for ep in p0.entry_points():
                    p0.eval(ep, H.build_obj(case['x']), draw)
            probes['plain_conf_same_hint'] = 1
        p1 = entry.Prepared(hint1, conf1)
        p2 = entry.Prepared(hint2, conf2)
    except Exception as e:      # noqa
        return c03._out({'h': case['h'], 'x': case['x'], 'conf': conf1, 'draws': case['draws']}, probes,
                        ('unexpected_exception', 'preparing checkers raised %s: %s' % (type(e).__name__, str(e)[:300]),
                         'prepare:' + type(e).__name__))
    viol = None
    seen = set()
    import json as _json
    _blob = _json.dumps(case['x'])
    oneshot = '"iterator"' in _blob or '"generator"' in _blob
    for draw in case['draws']:
        for ep in [e_ for e_ in p1.entry_points() if e_ in p2.entry_points()]:
            # (the same object for both sides unless it holds one-shot streams: see the note on address-ordered sets below)
            xo = H.build_obj(case['x'])
            o1 = p1.eval(ep, xo, draw)
            o2 = p2.eval(ep, H.build_obj(case['x']) if oneshot else xo, draw)
            c1, c2 = entry.classify(o1, p1.conf), entry.classify(o2, p2.conf)
            if ep == 'is_bearable':
                seen.add(c2)
            if c1 == 'error' and c2 == 'error' and type(o1['exc_obj']) is type(o2['exc_obj']):
                continue        # both sides refuse the (rewritten) hint with the same exception: equivalent
            if 'error' in (c1, c2):
                bad = o1 if c1 == 'error' else o2
                e = bad['exc_obj']
                viol = ('unexpected_exception', 'draw %d: %s on the %s side raised %s: %s' % (
                    draw, ep, 'option' if c1 == 'error' else 'hand-rewritten', type(e).__name__, str(e)[:300]),
                    'error:' + kind + ':' + type(e).__name__)
                break
            if c1 != c2:
                viol = ('rewrite_mismatch', 'draw %d: %s: option side %s, hand-rewritten side %s (kind=%s, depths=%r)' % (
                    draw, ep, c1, c2, kind, hits), 'mismatch:' + kind + ':' + ep + ':' + c03._family(case['h']))
                break
            if c1 == 'reject' and ep != 'is_bearable':
                probes['rejections_both_sides'] += 1
        if viol:
            break
    if viol is None and plain == 'last':
        # the option side has run: the plain configuration on the unrewritten hint must answer as it does in a pristine process
        # (beartype's state put back, as in C14) - whatever the option side cached must not be served to it
        from sim import state
        probes['plain_conf_same_hint'] = 1
        try:
            # (one object for both evaluations: a set of objects hashed by address iterates in an order that differs from build
            # to build, and the first item is the one a check looks at; one-shot streams are rebuilt)
            import json
            blob = json.dumps(case['x'])
            shared = None if ('"iterator"' in blob or '"generator"' in blob) else H.build_obj(case['x'])
            mk = (lambda: shared) if shared is not None else (lambda: H.build_obj(case['x']))
            p0 = entry.Prepared(hint1, conf2)
            after = [(draw, ep, entry.classify(p0.eval(ep, mk(), draw), p0.conf))
                     for draw in case['draws'][:2] for ep in p0.entry_points()]
            state.restore()
            p0f = entry.Prepared(hint1, conf2)
            fresh = [(draw, ep, entry.classify(p0f.eval(ep, mk(), draw), p0f.conf))
                     for draw in case['draws'][:2] for ep in p0f.entry_points()]
        except Exception:       # noqa
            after = fresh = []
        for a, f in zip(after, fresh):
            if a != f:
                viol = ('plain_side_contaminated', 'draw %d: %s under the plain configuration on the UNREWRITTEN hint: %s when evaluated after '
                        'the option side, %s in a pristine state' % (a[0], a[1], a[2], f[2]), 'plain:' + kind + ':' + a[1])
                break
    if len(seen) > 1:
        probes['verdict_depends_on_draw'] = 1
    return c03._out({'h': case['h'], 'x': case['x'], 'conf': conf1, 'draws': case['draws']}, probes, viol,
                    nontrivial=bool(probes['rewrite_below_top'] or len(seen) > 1))


def shrink(case, violation):
    if len(case['draws']) > 1:
        for d in case['draws']:
            yield dict(case, draws=[d])
    if case.get('vt'):
        yield dict(case, vt=None)
    mapping = case['combo']['mapping'] if case['kind'] == 'combo' else TOWER if case['kind'] == 'tower' else ({case['override'][0]['n']: case['override'][1]} if case['kind'] == 'override' else {})
    n = 0
    for h in c03.shrink_hint(case['h']):
        n += 1
        if n > 60:
            break
        yield dict(case, h=h, h2=rewrite(h, mapping))
    n = 0
    for o in c03.shrink_obj(case['x']):
        n += 1
        if n > 60:
            break
        yield dict(case, x=o)


def _sig_counter_int(case, v):
    """Known finding C18-counter-implicit-int-overridden."""
    ov = case.get('override')
    if not (v.get('kind') == 'rewrite_mismatch' and case.get('kind') == 'override' and bool(ov)
            and 'option side reject, hand-rewritten side accept' in v.get('detail', '')):
        return False
    # Counter[K] -> mapping from K to a synthesised int; TypedDict -> mapping from a synthesised str
    if ov[0].get('n') == 'int' and ov[1].get('k') == 'seq' and _mentions_kind(case['h'], 'counter'):
        return True
    return ov[0].get('n') == 'str' and ov[1].get('k') == 'opt' and _mentions_exo(case['h'], 'TypedDict')


SIGNATURES = {'counter_implicit_int_overridden': _sig_counter_int}


def describe(case):
    return {'kind': case['kind'], 'hint': case['h'], 'rewritten': case['h2'], 'object': case['x'], 'override': case.get('override'),
            'combo': case.get('combo'), 'vt': case.get('vt'), 'draws': case['draws']}
