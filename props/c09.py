"""C09 -- call-time checking cost does not grow with container size.

Weakest fit of the technique (DESIGN.md section 5): no schedule and no fault is
involved. What is simulated is (i) the sampler draw and (ii) the *storage* of the
checked object: instrumented stub containers (sim/spies.py) count every item a
check pulls out of them. For each container-bearing hint a size sweep
n in {0, 1, 2, 3, 10, 1000, 100000} of conforming and violating instances is
checked at all entry points under several draws. Invariants, per container
instance reached and per pass (deciding pass; explanation pass on rejection by a
raiser or wrapper): at most one item fetched (mappings: one key and its value);
identical counts across the sweep; non-collection iterables are not iterated at
all; repr() only when a rejection is described, a size-independent number of times.
"""
import collections
import collections.abc as cabc
import typing

from sim import entry, kernel, spies

ID = 'C09'
BATCH = True
RULE = ('seeded choice of a container family (14 hint shapes x 1-3 stub container kinds), an item hint (leaf, optional, '
        'nested container with stub inner containers), conforming / all-items-violating / one-bad content, optionally wrapped so that the '
        'culprit lies beside or above a conforming container (tuple[H, str], Annotated[H, failing validator]), and a draw set; '
        'the same case is executed for every size of the sweep and the per-method call counts are compared. Non-trivial = '
        'sizes >= 1000 were reached and a rejection was explained; distinct = distinct (family, item hint, content kind, conf)')
INTERLEAVING_MEASURE = 'distinct (family, item hint, content, configuration) cases; each is a full size sweep'
COMPONENTS = {
    'real': ['beartype generated checkers and explanation path (from /repo working tree)'],
    'stub': ['the checked containers (counting subclasses of list/tuple/set/frozenset/deque/dict/defaultdict/OrderedDict/Counter and '
             'pure-Python Sequence/Set/Collection/Mapping/Iterable/Container implementations)', 'sampler draw'],
}
ASSUMPTIONS = ['the property\'s parenthesis "one repr()" is read as: repr-ing the rejected object is the only work that may depend on its '
               'size; the check asserts a size-independent count of at most two repr() calls per rejection (message prefix + culprit stand-in)',
               'dictionary views (KeysView/ValuesView/ItemsView) are C objects that cannot be instrumented and are not swept',
               'wall time is not asserted']
PROBES = ['sweeps', 'big_sizes_reached', 'reject_explained', 'nested_inner_reached', 'noncollection_iterables', 'mapping_sweeps', 'wrapped_sweeps']

SIZES_QUICK = [0, 1, 2, 3, 10, 1000]
SIZES_THOROUGH = [0, 1, 2, 3, 10, 1000, 100000]


def tiers(tier):
    if tier == 'thorough':
        return {'runs': 40000, 'wall': 900, 'det_runs': 10, 'chunks_per_job': 4}
    return {'runs': 6000, 'wall': 70, 'det_runs': 6}


FAMILIES = {
    # name: (hint factory, [container kinds], is_mapping, is_quasi)
    'list': (lambda t: list[t], ['SpyList'], False),
    'List': (lambda t: typing.List[t], ['SpyList'], False),
    'Sequence': (lambda t: cabc.Sequence[t], ['SpyList', 'SpyTuple', 'SpySeq'], False),
    'MutableSequence': (lambda t: cabc.MutableSequence[t], ['SpyList', 'SpyDeque'], False),
    'vtuple': (lambda t: tuple[t, ...], ['SpyTuple'], False),
    'deque': (lambda t: collections.deque[t], ['SpyDeque'], False),
    'set': (lambda t: set[t], ['SpySet'], False),
    'frozenset': (lambda t: frozenset[t], ['SpyFrozenSet'], False),
    'AbstractSet': (lambda t: cabc.Set[t], ['SpySet', 'SpyFrozenSet', 'SpyAbsSet'], False),
    'Collection': (lambda t: cabc.Collection[t], ['SpyList', 'SpySet', 'SpyCollection', 'SpyDeque'], False),
    'Iterable': (lambda t: cabc.Iterable[t], ['SpyList', 'SpySet', 'SpyIterable', 'OneShot', 'SpySizedIterable'], False),
    'TIterable': (lambda t: typing.Iterable[t], ['SpyList', 'SpySizedIterable', 'SpyIterable'], False),
    'Container': (lambda t: cabc.Container[t], ['SpyList', 'SpyContainer'], False),
    'Reversible': (lambda t: cabc.Reversible[t], ['SpyList', 'SpyDeque', 'SpySeq', 'SpySizedReversible'], False),
    'dict': (lambda k, v: dict[k, v], ['SpyDict'], True),
    'Mapping': (lambda k, v: cabc.Mapping[k, v], ['SpyDict', 'SpyMap', 'SpyOrderedDict'], True),
    'MutableMapping': (lambda k, v: cabc.MutableMapping[k, v], ['SpyDict'], True),
    'defaultdict': (lambda k, v: collections.defaultdict[k, v], ['SpyDefaultDict'], True),
    'OrderedDict': (lambda k, v: collections.OrderedDict[k, v], ['SpyOrderedDict'], True),
    'Counter': (lambda k: collections.Counter[k], ['SpyCounter'], True),
}
# (opt_list_int / int_or_list_int: a union of a plain class and a subscripted hint *inside* the container)
ITEM_HINTS = ['int', 'str', 'optint', 'list_int', 'union', 'any', 'object', 'opt_list_int', 'int_or_list_int']
LIST_ITEM_HINTS = ('list_int', 'opt_list_int', 'int_or_list_int')
HASHABLE_ITEM_HINTS = ['int', 'str', 'optint', 'union', 'any']


def generate(rng, run, tier):
    fam = rng.choice(list(FAMILIES))
    mapping = FAMILIES[fam][2]
    kind = rng.choice(FAMILIES[fam][1])
    needs_hashable = kind in ('SpySet', 'SpyFrozenSet', 'SpyAbsSet') or mapping
    item = rng.choice(HASHABLE_ITEM_HINTS if ((needs_hashable and not mapping) or fam == 'Counter') else ITEM_HINTS)
    content = rng.choice(['good', 'good', 'allbad', 'allbad', 'onebad'])
    conf = entry.gen_conf(rng, allow_tower=False)
    conf.pop('strategy', None)      # the property speaks about the default constant-time strategy only
    # the container may also sit *inside* the rejected object while the culprit is elsewhere: the explanation path then walks
    # past a conforming container of any size (tuple[H, str] with a bad second item; Annotated[H, Is[always false]])
    wrap = rng.choice([None, None, None, 'tuple_bad', 'annot_fail', 'tuple_bad_first'])
    if item in ('any', 'object'):
        # an ignorable item hint (dict[str, Any], list[object]): nothing inside can violate it, the container only ever conforms;
        # interesting when the explanation path walks past it on its way to a culprit elsewhere
        content = 'good'
        wrap = wrap or rng.choice(['tuple_bad', 'annot_fail', 'tuple_bad_first'])
    if wrap:
        content = 'good'
    return {'fam': fam, 'kind': kind, 'item': item, 'content': content, 'conf': conf, 'wrap': wrap,
            'draws': [0, 1, 2 ** 32 - 1, rng.getrandbits(32)], 'bad_at': rng.random(), 'tier': tier,
            'big': rng.random() < 0.03}


def _item_hint(name):
    return {'int': int, 'str': str, 'optint': typing.Optional[int], 'list_int': list[int], 'opt_list_int': typing.Optional[list[int]],
            'int_or_list_int': typing.Union[int, list[int]],
            'union': typing.Union[int, bytes], 'any': typing.Any, 'object': object}[name]


def _good_item(name, j, inner):
    if name in ('int', 'any', 'object'):
        return j
    if name == 'str':
        return 's%d' % j
    if name == 'optint':
        return None if j % 3 == 0 else j
    if name == 'union':
        return j if j % 2 else b'x%d' % j
    lst = spies.SpyList([j, j + 1, j + 2])
    inner.append(lst)
    return lst


def _bad_item(name, j, inner):
    if name in ('int', 'optint', 'union'):
        return 'bad%d' % j
    if name == 'str':
        return 10 ** 6 + j
    lst = spies.SpyList(['x', 'y'])
    inner.append(lst)
    return lst


def build(case, n):
    """(container, [inner spies]) of size n."""
    kind, item, content = case['kind'], case['item'], case['content']
    inner = []
    bad_index = int(case['bad_at'] * n) if n else 0
    items = []
    for j in range(n):
        bad = content == 'allbad' or (content == 'onebad' and j == bad_index)
        items.append(_bad_item(item, j, inner) if bad else _good_item(item, j, inner))
    mapping = FAMILIES[case['fam']][2]
    if mapping:
        if case['fam'] == 'Counter':
            # keys carry the item hint; values are ints (bad values for 'allbad')
            pairs = [(it, j + 1) for j, it in enumerate(items)]
        else:
            pairs = [('k%d' % j, it) for j, it in enumerate(items)]
        cls = getattr(spies, kind)
        if kind == 'SpyDefaultDict':
            d = cls(int)
            for k, v in pairs:
                collections.defaultdict.__setitem__(d, k, v)
            d.log.clear()
            return d, inner
        if kind == 'SpyMap':
            return cls(pairs), inner
        d = cls()
        base_set = cls.__mro__[1].__setitem__      # bypass the counting override, keep the base class bookkeeping
        for k, v in pairs:
            base_set(d, k, v)
        d.log.clear()
        return d, inner
    if kind == 'OneShot':
        return spies.OneShot(items), inner
    cls = getattr(spies, kind)
    return cls(items), inner


def build_hint(case):
    f = FAMILIES[case['fam']][0]
    t = _item_hint(case['item'])
    if case['fam'] == 'Counter':
        return f(t)
    if FAMILIES[case['fam']][2]:
        return f(str, t)
    return f(t)


def _always_false(x):
    return False


def _wrap_hint(case, hint):
    w = case.get('wrap')
    if w == 'tuple_bad':
        return tuple[hint, str]
    if w == 'tuple_bad_first':
        return tuple[str, hint]
    if w == 'annot_fail':
        from beartype.vale import Is
        return typing.Annotated[hint, Is[_always_false]]
    return hint


def _wrap_obj(case, x):
    w = case.get('wrap')
    if w == 'tuple_bad':
        return (x, 0xBAD)
    if w == 'tuple_bad_first':
        return (0xBAD, x)
    return x


def execute(case):
    from sim import boot
    boot.SAMPLER.reset()
    probes = {k: 0 for k in PROBES}
    probes['sweeps'] = 1
    hint = _wrap_hint(case, build_hint(case))
    if case.get('wrap'):
        probes['wrapped_sweeps'] = 1
    mapping = FAMILIES[case['fam']][2]
    if mapping:
        probes['mapping_sweeps'] = 1
    noncollection = case['kind'] in ('SpyIterable', 'SpyContainer', 'OneShot', 'SpySizedIterable', 'SpySizedReversible')
    if noncollection:
        probes['noncollection_iterables'] = 1
    try:
        prep = entry.Prepared(hint, case['conf'])
    except Exception as e:      # noqa
        return _out(case, probes, ('unexpected_exception', 'preparing %r raised %s: %s' % (hint, type(e).__name__, str(e)[:200]), 'prepare'))
    sizes = SIZES_THOROUGH if (case.get('tier') == 'thorough' or case.get('big')) else SIZES_QUICK
    if case['item'] in LIST_ITEM_HINTS:
        sizes = [s for s in sizes if s <= 1000]
    viol = None
    sig_by = {}      # (entry, drawclass, verdict) -> {size: signature}
    for n in sizes:
        # one container per size, reused for every draw and entry point with its logs cleared (a check that mutated it would
        # be reported and end the sweep); one-shot streams are rebuilt every time
        x, inner = build(case, n)
        reusable = case['kind'] != 'OneShot'
        for draw in case['draws']:
            for ep in prep.entry_points():
                if reusable:
                    x.log.clear()
                    for l in inner:
                        l.log.clear()
                else:
                    x, inner = build(case, n)
                out = prep.eval(ep, _wrap_obj(case, x), draw)
                verdict = entry.classify(out, prep.conf)
                if verdict == 'error':
                    e = out['exc_obj']
                    viol = ('unexpected_exception', 'n=%d %s raised %s: %s' % (n, ep, type(e).__name__, str(e)[:200]), 'error')
                    break
                log = x.log
                passes = 1 if (verdict == 'accept' or ep in ('is_bearable', 'typehint_is_bearable')) else 2
                if verdict == 'reject' and passes == 2:
                    probes['reject_explained'] += 1
                fetched = spies.item_fetches(log)
                bound = passes * (2 if mapping else 1)
                if n >= 1000:
                    probes['big_sizes_reached'] = 1
                if fetched > bound:
                    viol = ('too_many_items_read', 'n=%d %s draw=%d verdict=%s: %d items fetched from the outer %s (bound %d): %r' % (
                        n, ep, draw, verdict, fetched, case['kind'], bound, dict(log)), 'outer:' + case['fam'] + ':' + ep)
                    break
                if noncollection and (log['__iter__'] or log['__next__']):
                    viol = ('noncollection_iterated', 'n=%d %s: a %s (not a collection) was iterated: %r' % (n, ep, case['kind'], dict(log)),
                            'noncollection:' + case['fam'])
                    break
                muts = spies.mutations(log)
                if muts:
                    viol = ('mutated', 'n=%d %s: %r' % (n, ep, muts), 'mutated:' + case['fam'])
                    break
                touched = [l for l in inner if sum(l.log.values())]
                if touched:
                    probes['nested_inner_reached'] = 1
                if len(touched) > passes:
                    viol = ('too_many_items_read', 'n=%d %s: %d inner containers touched (bound %d)' % (n, ep, len(touched), passes),
                            'inner_count:' + case['fam'])
                    break
                for l in touched:
                    if spies.item_fetches(l.log) > passes:
                        viol = ('too_many_items_read', 'n=%d %s: %d items fetched from one inner list (bound %d)' % (
                            n, ep, spies.item_fetches(l.log), passes), 'inner:' + case['fam'])
                        break
                if viol:
                    break
                reprs = log['__repr__'] + sum(l.log['__repr__'] for l in inner)
                if verdict == 'accept' and reprs:
                    viol = ('repr_on_accept', 'n=%d %s: repr() called %d times although the object was accepted' % (n, ep, reprs), 'repr_accept')
                    break
                if log['__repr__'] > (2 if not case.get('wrap') else 6):
                    # (wrapped: the container is described as part of the rejected object and again as a conforming part; the
                    # number of repr() calls must still be a small constant, and identical across sizes - checked below)
                    viol = ('repr_count', 'n=%d %s: repr() of the rejected object called %d times' % (n, ep, log['__repr__']), 'repr_count')
                    break
                if n >= 1:
                    inner_sig = collections.Counter()
                    for l in touched:
                        inner_sig.update(l.log)
                    sig = (tuple(sorted(log.items())), tuple(sorted(inner_sig.items())))
                    dclass = 'r=%d' % case['draws'].index(draw)
                    key = (ep, dclass, verdict)
                    # with exactly one bad item the verdict depends on which index the draw selects: compare per verdict
                    sig_by.setdefault(key, {})[n] = sig
                elif fetched:
                    viol = ('too_many_items_read', 'n=0 %s: %d items fetched from an empty container' % (ep, fetched), 'empty')
                    break
            if viol:
                break
        if viol:
            break
    if viol is None:
        for key, by_n in sig_by.items():
            sigs = set(by_n.values())
            if len(sigs) > 1:
                items = sorted(by_n.items())
                viol = ('cost_depends_on_size', '%s: call counts differ across sizes: %r' % (key, [(n, dict(s[0])) for n, s in items][:6]),
                        'size:' + case['fam'] + ':' + key[0])
                break
    return _out(case, probes, viol)


def _out(case, probes, viol):
    out = {'digest': kernel.stable_hash([case['fam'], case['kind'], case['item'], case['content'], case['conf'], case.get('wrap')]),
           'nontrivial': bool(probes['big_sizes_reached'] and probes['reject_explained']), 'probes': probes,
           'stats': {'sweeps': probes['sweeps']}, 'violation': None}
    if viol:
        out['violation'] = {'kind': viol[0], 'detail': viol[1][:2000], 'key': viol[2]}
    return out


def shrink(case, violation):
    if len(case['draws']) > 1:
        for d in case['draws']:
            yield dict(case, draws=[d])
    if case['conf'] != {'is_color': False}:
        yield dict(case, conf={'is_color': False})
    if case['item'] != 'int':
        yield dict(case, item='int')


SIGNATURES = {}


def describe(case):
    return {k: case.get(k) for k in ('fam', 'kind', 'item', 'content', 'conf', 'draws', 'wrap')}
