"""C08 -- wrapped coroutines and generators are indistinguishable from the originals.

Generated bodies (yield / receive / await simulated I/O / catch-and-continue or
re-raise / try-finally cleanup / early return / raise) are compiled twice: once
undecorated (the twin) and once under @beartype. Two drivers run both under the
same seed and compare, per produced object, the operation trace, the body's own
log (including cleanup order) and the final state:

1. protocol driver -- seeded sequences of next/send/throw/close (resp.
   anext/asend/athrow/aclose, coroutine send/throw/close), operations on
   exhausted objects, a second anext while one is pending, drop-and-collect;
2. event-loop driver -- 1-3 tasks on the virtual-time loop (sim/vloop.py)
   consuming the object; simulated I/O futures completing at seeded virtual
   times, wait_for time-outs, task.cancel() injected at seeded virtual times,
   early break + finalisation, loop shutdown with live generators.
"""
import inspect

from sim import kernel

ID = 'C08'
BATCH = True
RULE = ('seeded bodies (depth <= 3, <= 8 statements) for generator / async-generator / coroutine functions x seeded '
        'protocol-operation sequences (<= 8) or event-loop scenarios (1-3 tasks, seeded I/O latencies, cancellation and '
        'time-out instants in virtual time); decorated vs undecorated twin under the same seed. Non-trivial = at least '
        'one throw/close/cancel/timeout/drop fault was injected; distinct = distinct (body, scenario) pairs')
INTERLEAVING_MEASURE = 'distinct (body, scenario) digests; event-loop scenarios additionally count distinct loop-order digests'
COMPONENTS = {
    'real': ['beartype decorator and generated wrappers (from /repo working tree)', 'CPython generator / coroutine / '
             'async-generator protocol', 'asyncio tasks, futures, wait_for, shutdown_asyncgens'],
    'stub': ['event loop (virtual-time VLoop: clock jumps to next timer)', 'I/O = futures completed by seeded timers',
             'protocol driver trampoline instead of a loop (driver 1)'],
}
ASSUMPTIONS = ['bodies that yield while handling GeneratorExit are not generated (the property excludes them)',
               'cross-task event order is not compared, only per-object traces and body logs']
PROBES = ['throw_ops', 'close_ops', 'cancel_injected', 'timeout_fired', 'drop_finalise', 'return_violation_cases',
          'overlap_anext', 'loop_scenarios', 'protocol_scenarios', 'cleanup_ran']


def tiers(tier):
    if tier == 'thorough':
        return {'runs': 600000, 'wall': 600, 'det_runs': 20, 'chunks_per_job': 4}
    return {'runs': 40000, 'wall': 60, 'det_runs': 10}


EXCS = ['ValueError', 'KeyError', 'StopIteration', 'StopAsyncIteration', 'GeneratorExit', 'CancelledError', 'MyBase',
        'RuntimeError']
CATCHABLE = ['ValueError', 'KeyError', 'RuntimeError', 'MyBase', 'CancelledError']
VALUES = [0, 1, 2, -1, 'a', 'b', None, 3.5]


# ------------------------------------------------------------------ body generation
def gen_body(rng, kind, depth=0, budget=None):
    budget = budget or [rng.randint(2, 8)]
    out = []
    n = rng.randint(1, 4)
    for _ in range(n):
        if budget[0] <= 0:
            break
        budget[0] -= 1
        r = rng.random()
        if r < 0.34:
            if kind == 'coro':
                out.append({'s': 'await', 'lat': rng.choice([0, 1, 2, 5]), 'tag': rng.choice(VALUES)})
            else:
                out.append({'s': 'yield', 'v': rng.choice(VALUES)})
        elif r < 0.46 and kind != 'gen':
            out.append({'s': 'await', 'lat': rng.choice([0, 1, 2, 5]), 'tag': rng.choice(VALUES)})
        elif r < 0.60 and depth < 3:
            if kind != 'coro' and rng.random() < 0.15:
                # a handler that *swallows* GeneratorExit (or everything) without yielding again: cleanup, then the generator
                # ends - inside the property (only yielding while handling GeneratorExit is excluded)
                out.append({'s': 'try_except', 'exc': [rng.choice(['GeneratorExit', 'BaseException'])],
                            'body': gen_body(rng, kind, depth + 1, budget),
                            'handler': [{'s': 'log', 'v': rng.randrange(100)}] if rng.random() < 0.5 else [],
                            'reraise': rng.random() < 0.25})
                if not out[-1]['reraise']:
                    # nothing may be yielded once GeneratorExit has been swallowed (that would be the excluded kind of body)
                    out.append({'s': 'return', 'v': rng.choice(VALUES)})
                    break
                continue
            out.append({'s': 'try_except', 'exc': rng.sample(CATCHABLE, rng.randint(1, 2)),
                        'body': gen_body(rng, kind, depth + 1, budget),
                        'handler': gen_body(rng, kind, depth + 1, budget) if rng.random() < 0.5 else [],
                        'reraise': rng.random() < 0.3})
        elif r < 0.74 and depth < 3:
            fin = []
            if kind != 'gen' and rng.random() < 0.4:
                fin = [{'s': 'await', 'lat': rng.choice([0, 1]), 'tag': 'fin'}]
            out.append({'s': 'try_finally', 'tag': rng.randrange(100), 'body': gen_body(rng, kind, depth + 1, budget),
                        'final': fin})
        elif r < 0.80:
            out.append({'s': 'return', 'v': rng.choice(VALUES)})
            break
        elif r < 0.86:
            out.append({'s': 'raise', 'exc': rng.choice(['ValueError', 'KeyError', 'RuntimeError', 'MyBase'])})
            break
        elif r < 0.93 and depth < 2:
            out.append({'s': 'loop', 'n': rng.randint(1, 3), 'body': gen_body(rng, kind, depth + 1, budget)})
        else:
            out.append({'s': 'log', 'v': rng.randrange(100)})
    return out


def render(body, kind, ind):
    pad = '    ' * ind
    lines = []
    for st in body:
        s = st['s']
        if s == 'yield':
            lines.append('%sx = yield %r' % (pad, st['v']))
            lines.append("%slog.append(('got', x))" % pad)
        elif s == 'await':
            lines.append('%sr = await io(%r, %r)' % (pad, st['lat'], st['tag']))
            lines.append("%slog.append(('io', r))" % pad)
        elif s == 'try_except':
            lines.append('%stry:' % pad)
            lines.extend(render(st['body'], kind, ind + 1) or ['%s    pass' % pad])
            lines.append('%sexcept (%s,) as e:' % (pad, ', '.join(st['exc'])))
            lines.append("%s    log.append(('caught', type(e).__name__))" % pad)
            lines.extend(render(st['handler'], kind, ind + 1))
            if st['reraise']:
                lines.append('%s    raise' % pad)
        elif s == 'try_finally':
            lines.append('%stry:' % pad)
            lines.extend(render(st['body'], kind, ind + 1) or ['%s    pass' % pad])
            lines.append('%sfinally:' % pad)
            lines.append("%s    log.append(('cleanup', %r))" % (pad, st['tag']))
            lines.extend(render(st['final'], kind, ind + 1))
        elif s == 'return':
            if kind == 'agen':
                lines.append('%sreturn' % pad)
            else:
                lines.append('%sreturn %r' % (pad, st['v']))
        elif s == 'raise':
            lines.append("%sraise %s('boom')" % (pad, st['exc']))
        elif s == 'loop':
            lines.append('%sfor _i%d in range(%d):' % (pad, ind, st['n']))
            lines.extend(render(st['body'], kind, ind + 1) or ['%s    pass' % pad])
        elif s == 'log':
            lines.append("%slog.append(('log', %r))" % (pad, st['v']))
    return lines


RET_ANNS = {
    'gen': ['Generator[object, object, object]', 'Iterator[object]', 'Iterable[object]', 'Generator[int, None, str]', None],
    'agen': ['AsyncGenerator[object, object]', 'AsyncIterator[object]', 'AsyncIterable[object]', 'AsyncGenerator[int, None]', None],
    # NoReturn / Never: the coroutine conforms only by raising or never finishing; Coroutine[...]: the hint of the coroutine
    # object spelt out (beartype reduces it to its return child)
    'coro': ['object', 'int', 'str', 'Optional[int]', 'Union[int, str, float, None]', None, 'NoReturn', 'Never',
             'Coroutine[object, object, int]', 'Coroutine[object, object, NoReturn]', 'Awaitable[int]'],
}


def source(case):
    kind = case['kind']
    head = 'async def' if kind in ('agen', 'coro') else 'def'
    ann = case['ret']
    if case.get('closure'):
        # the decorated callable is a functools.wraps closure with the signature (*args, **kwargs) around a plain function of
        # another kind (asyncify / generator adapters): its kind is the closure's, its hints are the wrapped function's
        lines = ['import functools', 'def _inner(log, io, n: int = 1) -> object:', '    return None',
                 '@functools.wraps(_inner)', '%s f(*args, **kwargs):' % head,
                 '    log, io, n = (tuple(args) + (kwargs.get("n", 1),))[:3]']
    else:
        sig = '%s f(log, io, n: int = 1)%s:' % (head, (' -> ' + ann) if ann else '')
        lines = [sig]
    if kind in ('gen', 'agen'):
        lines.append('    if n < 0:')
        lines.append('        yield None')
    lines.append("    log.append(('start', n))")
    lines.extend(render(case['body'], kind, 1))
    return '\n'.join(lines) + '\n'


def gen_ops(rng, kind):
    ops = []
    n = rng.randint(1, 8)
    for _ in range(n):
        r = rng.random()
        if kind == 'gen':
            if r < 0.45:
                ops.append(['next'])
            elif r < 0.65:
                ops.append(['send', rng.choice(VALUES)])
            elif r < 0.85:
                ops.append(['throw', rng.choice(EXCS)])
            elif r < 0.95:
                ops.append(['close'])
            else:
                ops.append(['drop'])
                break
        elif kind == 'agen':
            if r < 0.40:
                ops.append(['anext'])
            elif r < 0.58:
                ops.append(['asend', rng.choice(VALUES)])
            elif r < 0.78:
                ops.append(['athrow', rng.choice(EXCS)])
            elif r < 0.88:
                ops.append(['aclose'])
            elif r < 0.95:
                ops.append(['overlap'])
            else:
                ops.append(['drop'])
                break
        else:
            if r < 0.6:
                ops.append(['step'])
            elif r < 0.85:
                ops.append(['throw', rng.choice(EXCS)])
            elif r < 0.95:
                ops.append(['close'])
            else:
                ops.append(['run'])
    if kind == 'coro' and rng.random() < 0.7:
        ops.append(['run'])
    return ops


def gen_loop_scenario(rng, kind):
    ntasks = rng.choice([1, 1, 2, 3])
    tasks = []
    for _ in range(ntasks):
        t = {'start_delay': rng.choice([0, 0, 1, 3]),
             'cancel_at': rng.choice([None, None, 0.5, 1, 1.5, 2, 3, 4.5, 6, 9]),
             'timeout': rng.choice([None, None, None, 0.5, 2, 4, 8]),
             'n': 1}
        if kind == 'agen':
            t['take'] = rng.choice([None, 0, 1, 2, 3])
            t['mode'] = rng.choice(['for', 'for', 'asend', 'break_drop'])
            t['explicit_aclose'] = rng.random() < 0.4
        tasks.append(t)
    return {'tasks': tasks}


def generate(rng, run, tier):
    kind = rng.choice(['gen', 'agen', 'agen', 'coro', 'coro'])
    case = {'kind': kind, 'body': gen_body(rng, kind), 'ret': rng.choice(RET_ANNS[kind]),
            'is_debug': rng.random() < 0.05}
    if rng.random() < 0.1:
        case['closure'] = True
        case['ret'] = None
    if kind == 'gen' or rng.random() < 0.5:
        case['driver'] = 'protocol'
        case['ops'] = gen_ops(rng, kind)
        if _swallows_generatorexit(case['body']) and rng.random() < 0.9:
            # avoid switch: known finding C08-explicit-throw-of-generatorexit (most cases close instead of throwing it)
            case['ops'] = [[{'throw': 'close', 'athrow': 'aclose'}[o[0]]] if o[0] in ('throw', 'athrow') and o[1] == 'GeneratorExit' else o
                           for o in case['ops']]
        # close()/athrow(GeneratorExit)/finalisation without a loop cannot suspend: an awaiting cleanup would be a
        # body that "yields while handling GeneratorExit", which the property excludes -> such awaits complete at once
        _zero_final_awaits(case['body'])
    else:
        case['driver'] = 'loop'
        case['scenario'] = gen_loop_scenario(rng, kind)
    return case


def _swallows_generatorexit(body):
    for st in body:
        if st['s'] == 'try_except' and not st.get('reraise') and any(e in ('GeneratorExit', 'BaseException') for e in st['exc']):
            return True
        for key in ('body', 'handler', 'final'):
            if st.get(key) and _swallows_generatorexit(st[key]):
                return True
    return False


def _zero_final_awaits(body, in_final=False):
    for st in body:
        if in_final and st['s'] == 'await':
            st['lat'] = 0
        for key in ('body', 'handler'):
            if st.get(key):
                _zero_final_awaits(st[key], in_final)
        if st.get('final'):
            _zero_final_awaits(st['final'], True)


# ------------------------------------------------------------------ execution helpers
class MyBase(BaseException):
    pass


def _namespace():
    import asyncio
    import typing
    ns = {'MyBase': MyBase, 'CancelledError': asyncio.CancelledError}
    for n in ('Generator', 'Iterator', 'Iterable', 'AsyncGenerator', 'AsyncIterator', 'AsyncIterable', 'Optional', 'Union', 'NoReturn',
              'Never', 'Coroutine', 'Awaitable'):
        ns[n] = getattr(typing, n)
    return ns


def _exc(name):
    import asyncio
    return {'ValueError': ValueError, 'KeyError': KeyError, 'StopIteration': StopIteration,
            'StopAsyncIteration': StopAsyncIteration, 'GeneratorExit': GeneratorExit,
            'CancelledError': asyncio.CancelledError, 'MyBase': MyBase, 'RuntimeError': RuntimeError}[name]


class Pending:
    """Marker yielded by the trampoline awaitable."""


class TrampIO:
    """Awaitable for the protocol driver: suspends ``lat`` times, then returns the tag."""

    def __init__(self, lat, tag):
        self.lat, self.tag = lat, tag

    def __await__(self):
        for _ in range(int(self.lat)):
            yield Pending
        return self.tag


def tramp_io(lat, tag):
    return TrampIO(lat, tag)


def _norm_exc(e):
    import beartype.roar as roar
    if isinstance(e, roar.BeartypeCallHintViolation):
        return ['violation', type(e).__name__]
    a = e.args
    try:
        a = repr(a)[:120]
    except Exception:
        a = '?'
    return ['exc', type(e).__name__, a]


def _drive(aw, log, max_steps=200):
    """Run an awaitable to completion on the trampoline."""
    it = aw.__await__()
    try:
        for _ in range(max_steps):
            v = it.send(None)
            if v is not Pending:
                log.append(('odd_yield', repr(v)[:40]))
        return ['stuck']
    except StopIteration as e:
        return ['ok', e.value]
    except StopAsyncIteration as e:
        return ['stopasync']
    except BaseException as e:      # noqa
        return _norm_exc(e)


def _protocol(func, case):
    import gc
    kind = case['kind']
    log = []
    trace = []
    try:
        obj = func(log, tramp_io)
    except BaseException as e:      # noqa
        return {'trace': [['call'] + _norm_exc(e)], 'log': log, 'state': 'nocall'}
    pending = None
    for op in case['ops']:
        k = op[0]
        thrown = None
        if k in ('throw', 'athrow'):
            thrown = _exc(op[1])('thrown')
        try:
            if kind == 'gen':
                if k == 'next':
                    r = ['y', next(obj)]
                elif k == 'send':
                    r = ['y', obj.send(op[1])]
                elif k == 'throw':
                    r = ['y', obj.throw(thrown)]
                elif k == 'close':
                    r = ['ok', obj.close()]
                elif k == 'drop':
                    obj = None
                    gc.collect()
                    r = ['dropped']
            elif kind == 'agen':
                if k == 'anext':
                    r = _drive(obj.__anext__(), log)
                elif k == 'asend':
                    r = _drive(obj.asend(op[1]), log)
                elif k == 'athrow':
                    r = _drive(obj.athrow(thrown), log)
                elif k == 'aclose':
                    r = _drive(obj.aclose(), log)
                elif k == 'overlap':
                    a1 = obj.__anext__()
                    it1 = a1.__await__()
                    first = None
                    try:
                        first = ['pend', it1.send(None) is Pending]
                    except StopIteration as e:
                        first = ['ok', e.value]
                    except StopAsyncIteration:
                        first = ['stopasync']
                    except BaseException as e:      # noqa
                        first = _norm_exc(e)
                    second = _drive(obj.__anext__(), log) if first[0] == 'pend' else ['skipped']
                    rest = None
                    if first[0] == 'pend':
                        try:
                            for _ in range(100):
                                it1.send(None)
                            rest = ['stuck']
                        except StopIteration as e:
                            rest = ['ok', e.value]
                        except StopAsyncIteration:
                            rest = ['stopasync']
                        except BaseException as e:      # noqa
                            rest = _norm_exc(e)
                    r = ['overlap', first, second, rest]
                elif k == 'drop':
                    # finaliser path: without a loop, CPython's default is to close() synchronously if possible
                    obj = None
                    gc.collect()
                    r = ['dropped']
            else:
                if k == 'step':
                    v = obj.send(None)
                    r = ['pend', v is Pending]
                elif k == 'throw':
                    v = obj.throw(thrown)
                    r = ['pend', v is Pending]
                elif k == 'close':
                    r = ['ok', obj.close()]
                elif k == 'run':
                    for _ in range(200):
                        obj.send(None)
                    r = ['stuck']
        except StopIteration as e:
            r = ['stop', e.value] if e is not thrown else ['exc_thrown_back', 'StopIteration']
        except StopAsyncIteration as e:
            r = ['stopasync'] if e is not thrown else ['exc_thrown_back', 'StopAsyncIteration']
        except BaseException as e:      # noqa
            r = _norm_exc(e)
        trace.append([k] + r)
        if obj is None:
            break
    state = 'dropped'
    if obj is not None:
        try:
            if kind == 'gen':
                state = inspect.getgeneratorstate(obj)
            elif kind == 'coro':
                state = inspect.getcoroutinestate(obj)
                obj.close()
            else:
                state = 'agen_running=%s' % obj.ag_running
        except Exception as e:      # noqa
            state = 'err:' + type(e).__name__
    obj = None
    gc.collect()
    return {'trace': trace, 'log': list(log), 'state': state}


def _loop_run(func, case):
    import asyncio
    import gc
    from sim import vloop
    kind = case['kind']
    sc = case['scenario']
    logs = []
    outcomes = []
    fired = {'cancel': 0, 'timeout': 0, 'drop': 0}
    ignored_exit = [0]

    def on_loop_exception(loop, ctx):
        # asyncio reports an async generator that answers its close request by yielding again here
        # ('async generator ignored GeneratorExit'): such a body is outside the property
        if 'ignored GeneratorExit' in str(ctx.get('exception')) or 'ignored GeneratorExit' in str(ctx.get('message')):
            ignored_exit[0] += 1

    loop_ref = [None]

    def factory(loop):
        loop_ref[0] = loop
        loop.set_exception_handler(on_loop_exception)

        async def io(lat, tag):
            fut = loop.create_future()
            h = loop.call_later(lat, lambda: (not fut.done()) and fut.set_result(tag))
            try:
                return await fut
            finally:
                h.cancel()

        async def consume(t, log, out):
            if t['start_delay']:
                await asyncio.sleep(t['start_delay'])
            try:
                if kind == 'coro':
                    c = func(log, io, t['n'])
                    if t['timeout'] is not None:
                        r = await asyncio.wait_for(c, t['timeout'])
                    else:
                        r = await c
                    out.append(['ret', r])
                else:
                    ag = func(log, io, t['n'])
                    got = 0
                    if t['mode'] == 'asend':
                        try:
                            v = await ag.__anext__()
                            out.append(['item', v])
                            while t['take'] is None or got < t['take']:
                                got += 1
                                v = await ag.asend(got)
                                out.append(['item', v])
                        except StopAsyncIteration:
                            out.append(['done'])
                    else:
                        async def loop_over():
                            nonlocal got
                            async for v in ag:
                                out.append(['item', v])
                                got += 1
                                if t['take'] is not None and got >= t['take']:
                                    break
                        if t['timeout'] is not None:
                            await asyncio.wait_for(loop_over(), t['timeout'])
                        else:
                            await loop_over()
                        out.append(['loop_end'])
                    if t['mode'] == 'break_drop':
                        ag = None
                        gc.collect()
                        fired['drop'] += 1
                        await asyncio.sleep(0)
                        await asyncio.sleep(0)
                    elif t.get('explicit_aclose'):
                        await ag.aclose()
                        out.append(['aclosed'])
            except asyncio.TimeoutError:
                fired['timeout'] += 1
                out.append(['timeout'])
            except asyncio.CancelledError:
                out.append(['cancelled'])
                raise
            except BaseException as e:      # noqa
                if 'ignored GeneratorExit' in str(e):
                    ignored_exit[0] += 1
                out.append(_norm_exc(e))

        async def main():
            tasks = []
            for t in sc['tasks']:
                log, out = [], []
                logs.append(log)
                outcomes.append(out)
                task = loop.create_task(consume(t, log, out), name='t%d' % len(tasks))
                tasks.append(task)
                if t['cancel_at'] is not None:
                    def do_cancel(task=task):
                        if not task.done():
                            fired['cancel'] += 1
                            task.cancel()
                    loop.call_later(t['cancel_at'], do_cancel)
            res = await asyncio.gather(*tasks, return_exceptions=True)
            return [type(r).__name__ if isinstance(r, BaseException) else 'ok' for r in res]
        return main()

    try:
        res, loop = vloop.run(factory)
        end = ['end', res, round(loop.time(), 6)]
    except vloop.Stalled as e:
        end = ['stalled', str(e)[:60]]
    except BaseException as e:      # noqa
        end = ['loop_exc'] + _norm_exc(e)
    gc.collect()
    return {'trace': [outcomes, end[:2]], 'log': [list(l) for l in logs], 'state': None,
            'sim_time': end[2] if end[0] == 'end' else 0.0, 'fired': fired,
            'ignored_exit': ignored_exit[0] + (loop_ref[0].ignored_close if loop_ref[0] is not None else 0)}


def _conforms_ret(ann, v):
    if ann in (None, 'object'):
        return True
    if ann == 'int':
        return isinstance(v, int)
    if ann == 'str':
        return isinstance(v, str)
    if ann == 'Optional[int]':
        return v is None or isinstance(v, int)
    if ann == 'Union[int, str, float, None]':
        return v is None or isinstance(v, (int, str, float))
    if ann in ('NoReturn', 'Never', 'Coroutine[object, object, NoReturn]', 'Awaitable[int]'):
        # (Awaitable[...] on an async def is not reduced to its child: the awaited result itself must be awaitable, which no
        # generated value is)
        return False
    if ann == 'Coroutine[object, object, int]':
        return isinstance(v, int)
    return True


def execute(case):
    import gc
    import warnings
    from beartype import BeartypeConf, beartype
    gc.disable()
    src = source(case)
    ns1, ns2 = _namespace(), _namespace()
    exec(compile(src, '<c08-twin>', 'exec'), ns1)
    exec(compile(src, '<c08-deco>', 'exec'), ns2)
    twin = ns1['f']
    with warnings.catch_warnings():
        warnings.simplefilter('ignore')
        deco = beartype(conf=BeartypeConf(is_debug=False))(ns2['f'])
    probes = {k: 0 for k in PROBES}
    viol = None
    kinds_ok = (inspect.isgeneratorfunction(twin) == inspect.isgeneratorfunction(deco)
                and inspect.isasyncgenfunction(twin) == inspect.isasyncgenfunction(deco)
                and inspect.iscoroutinefunction(twin) == inspect.iscoroutinefunction(deco))
    if not kinds_ok:
        viol = ('kind_changed', 'inspect reports a different kind for the decorated %s function' % case['kind'], 'kind_changed')
    wrapped = deco is not ns2['f']
    if case['driver'] == 'protocol':
        probes['protocol_scenarios'] = 1
        a = _protocol(twin, case)
        b = _protocol(deco, case)
        for op in case['ops']:
            if op[0] in ('throw', 'athrow'):
                probes['throw_ops'] += 1
            elif op[0] in ('close', 'aclose'):
                probes['close_ops'] += 1
            elif op[0] == 'drop':
                probes['drop_finalise'] += 1
            elif op[0] == 'overlap':
                probes['overlap_anext'] += 1
    else:
        probes['loop_scenarios'] = 1
        a = _loop_run(twin, case)
        b = _loop_run(deco, case)
        probes['cancel_injected'] = a['fired']['cancel']
        probes['timeout_fired'] = a['fired']['timeout']
        probes['drop_finalise'] = a['fired']['drop']
        if a.get('ignored_exit'):
            # the *undecorated* original answered a close request (finalisation / aclose / loop shutdown) by yielding again:
            # a body that "yields while handling GeneratorExit", which the property excludes. What such a generator does
            # next is decided by when the interpreter finalises it a second time, not by beartype.
            probes['excluded_ignores_close'] = 1
            return {'digest': kernel.stable_hash([src, case.get('ops'), case.get('scenario')]), 'nontrivial': False, 'probes': probes,
                    'stats': {'excluded_body': 1}, 'sim_time': a.get('sim_time', 0.0) or 0.0, 'violation': None}
    if any(isinstance(e, (list, tuple)) and e and e[0] == 'cleanup' for l in ([a['log']] if case['driver'] == 'protocol' else a['log'])
           for e in (l if case['driver'] == 'protocol' else l)):
        probes['cleanup_ran'] = 1
    if viol is None:
        ta, tb = a['trace'], b['trace']
        if case['kind'] == 'coro' and case['ret'] not in (None, 'object'):
            ta2, tb2, nviol = _align_return_violation(case, ta, tb)
            probes['return_violation_cases'] = nviol
            ta, tb = ta2, tb2
        if ta != tb:
            viol = ('trace_differs', 'twin=%r decorated=%r' % (_first_diff(ta, tb)), 'trace:' + case['kind'] + ':' + case['driver'])
        elif a['log'] != b['log']:
            viol = ('body_log_differs', 'twin=%r decorated=%r' % (_first_diff(a['log'], b['log'])),
                    'log:' + case['kind'] + ':' + case['driver'])
        elif a['state'] != b['state']:
            viol = ('final_state_differs', 'twin=%r decorated=%r' % (a['state'], b['state']), 'state:' + case['kind'])
    faults = (probes['throw_ops'] + probes['close_ops'] + probes['cancel_injected'] + probes['timeout_fired']
              + probes['drop_finalise'] + probes['overlap_anext'])
    out = {'digest': kernel.stable_hash([src, case.get('ops'), case.get('scenario')]), 'nontrivial': faults > 0 and wrapped,
           'probes': probes, 'stats': {'throw': probes['throw_ops'], 'close': probes['close_ops'],
                                       'cancel': probes['cancel_injected'], 'timeout': probes['timeout_fired'],
                                       'drop': probes['drop_finalise'], 'unwrapped': 0 if wrapped else 1},
           'sim_time': a.get('sim_time', 0.0) or 0.0, 'violation': None}
    if viol:
        out['violation'] = {'kind': viol[0], 'detail': viol[1][:1500], 'key': viol[2], 'source': src}
    return out


def _align_return_violation(case, ta, tb):
    """Where the twin returned a value that violates the return annotation, the decorated coroutine must
    raise the return violation instead: rewrite the twin's entry to that expectation."""
    n = 0

    def fix(entry):
        nonlocal n
        # protocol: [op, 'stop', value]; loop: ['ret', value]
        if isinstance(entry, list):
            if len(entry) == 3 and entry[1] == 'stop' and not _conforms_ret(case['ret'], entry[2]):
                n += 1
                return [entry[0], 'violation', 'BeartypeCallHintReturnViolation']
            if len(entry) == 2 and entry[0] == 'ret' and not _conforms_ret(case['ret'], entry[1]):
                n += 1
                return ['violation', 'BeartypeCallHintReturnViolation']
            return [fix(x) for x in entry]
        return entry
    ta2 = fix(ta)
    return ta2, tb, n


def _first_diff(x, y):
    if isinstance(x, list) and isinstance(y, list):
        for i, (p, q) in enumerate(zip(x, y)):
            if p != q:
                if isinstance(p, list) and isinstance(q, list) and len(repr(p)) > 200:
                    return _first_diff(p, q)
                return (p, q)
        return (x[len(y):][:3], y[len(x):][:3])
    return (x, y)


# ------------------------------------------------------------------ shrinking
def _shrink_body(body):
    for i in range(len(body)):
        yield body[:i] + body[i + 1:]
    for i, st in enumerate(body):
        for key in ('body', 'handler', 'final'):
            if st.get(key):
                # replace the compound statement by its inner block
                yield body[:i] + st[key] + body[i + 1:]
                for sub in _shrink_body(st[key]):
                    st2 = dict(st)
                    st2[key] = sub
                    yield body[:i] + [st2] + body[i + 1:]
        if st.get('reraise'):
            st2 = dict(st)
            st2['reraise'] = False
            yield body[:i] + [st2] + body[i + 1:]
        if st['s'] == 'loop' and st['n'] > 1:
            st2 = dict(st)
            st2['n'] = 1
            yield body[:i] + [st2] + body[i + 1:]


def shrink(case, violation):
    if case.get('ops'):
        for cand in kernel.drop_chunks(case['ops'], 1):
            c = dict(case)
            c['ops'] = cand
            yield c
    if case.get('scenario'):
        sc = case['scenario']
        if len(sc['tasks']) > 1:
            for i in range(len(sc['tasks'])):
                c = dict(case)
                c['scenario'] = {'tasks': sc['tasks'][:i] + sc['tasks'][i + 1:]}
                yield c
        for i, t in enumerate(sc['tasks']):
            for key, val in (('cancel_at', None), ('timeout', None), ('start_delay', 0), ('explicit_aclose', False)):
                if t.get(key) not in (val, None) or (key == 'start_delay' and t.get(key)):
                    t2 = dict(t)
                    t2[key] = val
                    c = dict(case)
                    c['scenario'] = {'tasks': sc['tasks'][:i] + [t2] + sc['tasks'][i + 1:]}
                    yield c
    for b in _shrink_body(case['body']):
        c = dict(case)
        c['body'] = b
        yield c
    if case.get('ret'):
        c = dict(case)
        c['ret'] = None
        yield c


def _sig_explicit_generatorexit(case, v):
    """Known finding C08-explicit-throw-of-generatorexit: GeneratorExit thrown *explicitly* (throw / athrow, not close) into a body
    that swallows it and finishes comes back out of the decorated generator, where the undecorated one just stops."""
    if v.get('kind') != 'trace_differs' or case.get('driver') != 'protocol' or not _swallows_generatorexit(case.get('body', [])):
        return False
    if not any(o[0] in ('throw', 'athrow') and o[1] == 'GeneratorExit' for o in case.get('ops', [])):
        return False
    d = v.get('detail', '')
    i = d.find('decorated=')
    return i >= 0 and "'exc', 'GeneratorExit'" in d[i:] and ('stop' in d[:i])


SIGNATURES = {'explicit_throw_of_generatorexit': _sig_explicit_generatorexit}


def describe(case):
    return {'kind': case['kind'], 'driver': case['driver'], 'source': source(case), 'ops': case.get('ops'),
            'scenario': case.get('scenario')}
