"""C02 -- guaranteed detection: violations the strategy must see are always rejected.

Simulated nondeterminism: the sampler draw. Oracles, each only where the
three-valued reference semantics entitles it:
 (a) must_reject(H, x)  =>  every entry point rejects for every enumerated draw;
 (b) reachability: x a sequence whose only bad item is i  =>  at least one of the enumerated draws (0..4n-1,
     2^31, 2^32-1, 12 random) rejects at every entry point; nothing is assumed about which draw selects which item;
 (c) is_random=False and only item 0 bad  =>  rejected for every draw and the sampler is not consumed;
 (d) acceptance  =>  some_path(H, x) (checked on arbitrary generated objects).
"""
from sim import entry
from sim import hints as H
from sim import kernel
from props import c03

ID = 'C02'
BATCH = True
RULE = ('seeded (hint, object, where) triples: violation placed at the top-level class, fixed-tuple length / position, '
        'literal, type[...], union without member, failed validator, all items / all keys / all values of a container, '
        'exactly one item i of a sampled sequence, or an arbitrary object; all effective draws x six entry points; '
        'is_random in {True, False}. Non-trivial = the violation sits below the top level; distinct = distinct (hint, object, conf)')
INTERLEAVING_MEASURE = 'distinct (hint, object, configuration) triples; draws enumerated per triple'
COMPONENTS = c03.COMPONENTS
ASSUMPTIONS = ['must_reject() and some_path() are sufficient / necessary conditions only (three-valued semantics)',
               'user generics nested directly in themselves are generated in 10% of the runs only (known finding C02-generic-nested-in-itself)']
PROBES = ['must_reject_cases', 'one_bad_cases', 'nonrandom_item0_cases', 'arbitrary_cases', 'accepted_arbitrary', 'where_nested', 'draws_evaluated']


def tiers(tier):
    if tier == 'thorough':
        return {'runs': 500000, 'wall': 900, 'det_runs': 20, 'chunks_per_job': 4}
    return {'runs': 12000, 'wall': 70, 'det_runs': 10}


_CONTAINER_GENERICS = ('ListBox', 'Shelf')       # user generics with a container base over the TypeVar T (Shelf's base mentions ListBox)


def _nested_same_generic(h, inside=False):
    """A container-based user generic nested (at any depth) inside another one: ListBox[ListBox[str]], ListBox[Shelf[A]]."""
    if h['k'] == 'gen' and h['n'] in _CONTAINER_GENERICS:
        if inside:
            return True
        return any(_nested_same_generic(a, True) for a in h.get('a', []) if isinstance(a, dict))
    return any(_nested_same_generic(a, inside) for a in h.get('a', []) or [] if isinstance(a, dict))


def _mentions_inttable(h):
    return (h['k'] == 'gen' and h.get('n') == 'IntTable') or any(_mentions_inttable(a) for a in h.get('a', []) or [] if isinstance(a, dict))


def _generate(rng, run, tier):
    r = rng.random()
    conf = entry.gen_conf(rng, allow_tower=False)
    allow_nested = rng.random() < 0.1
    allow_inttable = rng.random() < 0.15       # avoid switch: known finding C02-generic-partial-reparametrisation
    if allow_nested and r < 0.45 and rng.random() < 0.5:
        # drive straight at the known finding: a list-based user generic nested directly in itself
        inner = H.gen_hint(rng, 1)
        h = {'k': 'gen', 'n': 'ListBox', 'a': [{'k': 'gen', 'n': 'ListBox', 'a': [inner]}]}
        try:
            o, where = H.gen_violating(rng, h)
            return {'mode': 'must', 'h': h, 'x': o, 'where': where, 'conf': conf,
                    'draws': H.effective_draws(rng, H.seq_lengths(h, o), cap=60)}
        except H.CannotGenerate:
            pass
    if r < 0.45:
        for _ in range(30):
            h = H.gen_hint(rng, rng.choice([1, 2, 3, 3]))
            if _nested_same_generic(h) and not allow_nested:
                continue     # avoid switch: known finding C02-generic-nested-in-itself
            if _mentions_inttable(h) and not allow_inttable:
                continue
            try:
                o, where = H.gen_violating(rng, h)
            except H.CannotGenerate:
                continue
            return {'mode': 'must', 'h': h, 'x': o, 'where': where, 'conf': conf,
                    'draws': H.effective_draws(rng, H.seq_lengths(h, o), cap=60)}
    if r < 0.80:
        nonrandom = rng.random() < 0.35
        for _ in range(30):
            child = H.gen_hint(rng, rng.choice([0, 1, 2]))
            r2 = rng.random()
            if r2 < 0.25:
                h = {'k': 'vtuple', 'a': [child], 't': rng.random() < 0.3}
            elif r2 < 0.45:
                h = {'k': 'iter', 'o': rng.choice(list(H.ITER_ORIGINS)), 'a': [child]}
            else:
                h = {'k': 'seq', 'o': rng.choice(list(H.SEQ_ORIGINS)), 'a': [child]}
            if _nested_same_generic(h) and not allow_nested:
                continue
            if _mentions_inttable(h) and not allow_inttable:
                continue
            try:
                o, i = H.gen_one_bad(rng, h)
            except H.CannotGenerate:
                continue
            if nonrandom:
                # move the bad item to position 0
                items = o['i']
                items[0], items[i] = items[i], items[0]
                i = 0
                conf = dict(conf, is_random=False)
            n = len(o['i'])
            return {'mode': 'item0' if nonrandom else 'onebad', 'h': h, 'x': o, 'i': i, 'conf': conf,
                    'draws': list(range(4 * n)) + [2 ** 31, 2 ** 32 - 1] + [rng.getrandbits(32) for _ in range(12)]}
    h = H.gen_hint(rng, rng.choice([1, 2, 3]))
    o = H.gen_any_obj(rng, 2)
    return {'mode': 'any', 'h': h, 'x': o, 'conf': conf, 'draws': H.effective_draws(rng, H.seq_lengths(h, o), cap=24)}


def generate(rng, run, tier):
    case = _generate(rng, run, tier)
    # the calling convention of the decorated callable (drawn last: the rest of the case is as it was without it)
    case['sig'] = entry.gen_sig(rng)
    return case


def execute(case):
    import json
    from sim import boot
    boot.SAMPLER.reset()
    probes = {k: 0 for k in PROBES}
    mode = case['mode']
    hint = H.build_hint(case['h'])
    blob = json.dumps(case['x'])
    oneshot = any(k in blob for k in ('"iterator"', '"generator"'))
    x0 = H.build_obj(case['x'])
    if mode == 'must':
        probes['must_reject_cases'] = 1
        if not H.must_reject(case['h'], x0):
            return {'harness': 'generator/reference disagreement', 'digest': None}
        if case.get('where') not in ('top', None):
            probes['where_nested'] = 1
    elif mode == 'onebad':
        probes['one_bad_cases'] = 1
    elif mode == 'item0':
        probes['nonrandom_item0_cases'] = 1
    else:
        probes['arbitrary_cases'] = 1
    try:
        prep = entry.Prepared(hint, case['conf'], sig=case.get('sig', 'pos'))
    except Exception as e:      # noqa
        return c03._out(case, probes, ('unexpected_exception', 'preparing checkers for %r raised %s: %s' % (
            hint, type(e).__name__, str(e)[:300]), 'prepare:' + type(e).__name__))
    conf = prep.conf
    nonrandom = case['conf'].get('is_random') is False
    viol = None
    n = len(case['x'].get('i', [])) if mode in ('onebad', 'item0') else 0
    rejected_by = set()
    for draw in case['draws']:
        verdicts = {}
        for ep in prep.entry_points():
            out = prep.eval(ep, H.build_obj(case['x']), draw)
            probes['draws_evaluated'] += 1
            c = entry.classify(out, conf)
            verdicts[ep] = c
            if c == 'error':
                e = out['exc_obj']
                viol = ('unexpected_exception', 'draw %d: %s raised %s: %s' % (draw, ep, type(e).__name__, str(e)[:300]),
                        'error:' + type(e).__name__)
                break
            if nonrandom and out['draws'] != 0:
                viol = ('nonrandom_consumed_draw', 'is_random=False but %s consumed %d sampler draws' % (ep, out['draws']), 'nonrandom_draw')
                break
            if mode == 'must' and c != 'reject':
                viol = ('missed_must_reject', 'draw %d: %s accepted an object every correct checker must reject (violation at: %s)' % (
                    draw, ep, case.get('where')), 'missed:' + str(case.get('where')) + ':' + c03._family(case['h']))
                break
            if mode == 'item0' and c != 'reject':
                viol = ('nonrandom_not_item0', 'draw %d: is_random=False, item 0 violates, but %s accepted' % (draw, ep), 'item0:' + ep)
                break
            if mode == 'onebad' and not nonrandom and c == 'reject':
                rejected_by.add(ep)
            if mode == 'any' and c == 'accept' and not oneshot:
                probes['accepted_arbitrary'] += 1
                if not H.some_path(case['h'], x0):
                    viol = ('accepted_without_path', 'draw %d: %s accepted an object with no consistent item at some level' % (draw, ep),
                            'nopath:' + c03._family(case['h']))
                    break
        if viol:
            break
    if viol is None and mode == 'onebad' and not nonrandom:
        # reachability: *some* enumerated draw must reject at every entry point (nothing is assumed about which)
        missing = [ep for ep in prep.entry_points() if ep not in rejected_by]
        if missing:
            viol = ('unreachable_index', 'only item %d of %d violates, yet none of the %d enumerated draws made %s reject' % (
                case['i'], n, len(case['draws']), '/'.join(missing)), 'unreachable:' + str(n))
    return c03._out(case, probes, viol, nontrivial=bool(probes['where_nested'] or mode in ('onebad', 'item0')))


def shrink(case, violation):
    if case['mode'] == 'onebad':
        return          # the reachability oracle quantifies over the whole enumeration: nothing to drop
    if case['mode'] == 'item0':
        if len(case['draws']) > 1:
            for d in case['draws']:
                yield dict(case, draws=[d])
        return
    for c in c03.shrink(case, violation):
        yield c


def _sig_generic_recursion(case, v):
    return v.get('kind') in ('missed_must_reject', 'unreachable_index', 'nonrandom_not_item0') and _nested_same_generic(case.get('h', {'k': 'x'}))


def _sig_partial_reparam(case, v):
    """Known finding C02-generic-partial-reparametrisation: the acceptance is explained by 'the values of an IntTable[X] are not
    checked against X' (decided by re-evaluating the reference oracle under that model of the defect)."""
    if v.get('kind') not in ('missed_must_reject', 'unreachable_index', 'nonrandom_not_item0') or not _mentions_inttable(case.get('h', {'k': 'x'})):
        return False
    H.DEFECT_MODELS.add('inttable_values_unchecked')
    try:
        x = H.build_obj(case['x'])
        if case.get('mode') in ('onebad', 'item0'):
            return not H.must_reject(case['h']['a'][0], list(x)[case['i']])
        return not H.must_reject(case['h'], x)
    except Exception:       # noqa
        return False
    finally:
        H.DEFECT_MODELS.discard('inttable_values_unchecked')


SIGNATURES = {'generic_nested_in_itself': _sig_generic_recursion, 'generic_partial_reparametrisation': _sig_partial_reparam}


def describe(case):
    return {'sig': case.get('sig', 'pos'), 'mode': case['mode'], 'hint': case['h'], 'object': case['x'], 'conf': case['conf'], 'where': case.get('where'), 'i': case.get('i')}
