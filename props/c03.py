"""C03 -- all entry points agree; every rejection is the configured, explained violation.

The sampler draw is the simulated nondeterminism: the same draw is fed to
is_bearable, die_if_unbearable, TypeHint.is_bearable / .die_if_unbearable and the
parameter and return check of a decorated callable; without owning the draw
"same verdict" cannot even be stated. Oracle: equal verdicts; rejection shape
(configured class per pith kind, one warning + call proceeds in warning mode,
message names the hint, culprits begin with the rejected object); never a
non-violation exception (e.g. the internal desynchronisation error).
"""
from sim import entry
from sim import hints as H
from sim import kernel

ID = 'C03'
BATCH = True
RULE = ('seeded (hint, configuration, object) triples -- hints of depth <= 3 over 19 families, objects conforming, '
        'violating at a chosen position, or arbitrary; 3-8 sampler draws per triple (small residues, 2^31, 2^32-1, random), '
        'each fed identically to the six entry points. Non-trivial = the hint contains a sampled container and at least '
        'two draws gave different verdicts or a rejection was explained; distinct = distinct (hint, object, conf) digests')
INTERLEAVING_MEASURE = 'distinct (hint, object, configuration) triples; draws enumerated per triple'
COMPONENTS = {
    'real': ['beartype code generation, generated checkers, explanation path (errmain), door API, decorator (from /repo working tree)'],
    'stub': ['sampler: random.getrandbits replaced by the simulator\'s draw source', 'hint / object generators'],
}
ASSUMPTIONS = ['"message names the hint" is checked as: the message contains repr(hint) or the repr of the hint with typing. prefixes elided',
               'culprits[0] is the rejected object, or its repr() when it cannot be weakly referenced (documented behaviour)']
PROBES = ['rejections_explained', 'warning_mode_rejections', 'verdict_depends_on_draw', 'nonweakrefable_culprit', 'all_accept', 'cases']


def tiers(tier):
    if tier == 'thorough':
        return {'runs': 400000, 'wall': 900, 'det_runs': 20, 'chunks_per_job': 4}
    return {'runs': 14000, 'wall': 70, 'det_runs': 10}


def gen_case(rng, mode=None, depth=None):
    mode = mode or rng.choice(['conf', 'viol', 'viol', 'any', 'onebad', 'onebad'])
    if mode == 'onebad':
        # a sampled sequence with exactly one bad item: the verdict depends on the draw
        for _ in range(6):
            child = H.gen_hint(rng, rng.choice([0, 1, 2]))
            r = rng.random()
            if r < 0.25:
                h = {'k': 'vtuple', 'a': [child], 't': rng.random() < 0.3}
            elif r < 0.5:
                h = {'k': 'iter', 'o': rng.choice(list(H.ITER_ORIGINS)), 'a': [child]}
            else:
                h = {'k': 'seq', 'o': rng.choice(list(H.SEQ_ORIGINS)), 'a': [child]}
            try:
                o, i = H.gen_one_bad(rng, h)
            except H.CannotGenerate:
                continue
            # sometimes one level down: the sampled sequence is a mapping value / tuple position / optional
            w = rng.random()
            if w < 0.15:
                return {'k': 'map', 'o': 'dict', 'a': [{'k': 'cls', 'n': 'str'}, h]}, {'o': 'dict', 'i': [[{'o': 'str', 'v': 'k'}, o]]}, 'onebad', i
            if w < 0.3:
                return {'k': 'tuple', 'a': [{'k': 'cls', 'n': 'int'}, h]}, {'o': 'tuple', 'i': [{'o': 'int', 'v': 1}, o]}, 'onebad', i
            if w < 0.4:
                return {'k': 'opt', 'a': [h]}, o, 'onebad', i
            return h, o, 'onebad', i
        mode = 'viol'
    h = H.gen_hint(rng, depth or rng.choice([1, 2, 2, 3]))
    if rng.random() < 0.05:
        # validator focus: Annotated[Node, expression over attribute chains] against Node chains of depth 1-4 (fast path and
        # explanation path evaluate the same generated expression: they must agree with each other)
        h = {'k': 'ann', 'a': [{'k': 'cls', 'n': 'Node'}], 'v': [H.gen_node_validator(rng, rng.choice([2, 3, 3, 4]))]}
        return h, {'o': 'inst', 'c': 'Node', 'd': rng.randint(1, 4), 'v': rng.choice([0, 1, 2])}, 'any', None
    o = None
    where = None
    try:
        if mode == 'conf':
            o = H.gen_conforming(rng, h)
        elif mode == 'viol':
            o, where = H.gen_violating(rng, h)
    except H.CannotGenerate:
        o = None
    if o is None:
        o = H.gen_any_obj(rng, 2)
        mode = 'any'
    return h, o, mode, where


def draws_for(rng, o, h):
    ls = H.seq_lengths(h, o)
    d = [0, 1, 2, 3, 4, 5, 2 ** 31, 2 ** 32 - 1, rng.getrandbits(32)]
    for n in ls[:2]:
        d.append(n - 1)
    return sorted(set(x for x in d if x >= 0))[:10]


def _generate(rng, run, tier):
    h, o, mode, where = gen_case(rng)
    return {'h': h, 'x': o, 'mode': mode, 'where': where, 'conf': entry.gen_conf(rng), 'draws': draws_for(rng, o, h)}


def generate(rng, run, tier):
    case = _generate(rng, run, tier)
    # the calling convention of the decorated callable (drawn last: the rest of the case is as it was without it)
    case['sig'] = entry.gen_sig(rng)
    return case


def _hint_named(msg, hint):
    r = repr(hint)
    if r in msg:
        return True
    r2 = r.replace('typing.', '')
    m2 = msg.replace('typing.', '')
    if r2 in m2:
        return True
    # classes are named by their qualified name
    if isinstance(hint, type) and (hint.__name__ in msg):
        return True
    return False


def execute(case):
    import beartype.roar as roar
    from sim import boot
    boot.SAMPLER.reset()
    hint = H.build_hint(case['h'])
    probes = {k: 0 for k in PROBES}
    probes['cases'] = 1
    try:
        prep = entry.Prepared(hint, case['conf'], sig=case.get('sig', 'pos'))
    except Exception as e:      # noqa
        return _out(case, probes, ('non_violation_exception', 'preparing checkers for %r raised %s: %s' % (
            hint, type(e).__name__, str(e)[:300]), 'prepare:' + type(e).__name__))
    conf = prep.conf
    viol = None
    verdicts_by_draw = {}
    for draw in case['draws']:
        res = {}
        for ep in prep.entry_points():
            try:
                x = H.build_obj(case['x'])
            except Exception as e:      # noqa
                return _out(case, probes, None, harness='build_obj:' + repr(e)[:100])
            out = prep.eval(ep, x, draw)
            out['x'] = x
            res[ep] = out
            if out['draws'] > 1:
                viol = ('extra_draws', '%s consumed %d draws for one check' % (ep, out['draws']), 'extra_draws:' + ep)
                break
        if viol:
            break
        cls = {ep: entry.classify(o, conf) for ep, o in res.items()}
        verdicts_by_draw[draw] = cls['is_bearable']
        for ep, c in cls.items():
            if c == 'error':
                e = res[ep]['exc_obj']
                name = type(e).__name__ if e is not None else res[ep]['verdict']
                viol = ('non_violation_exception', 'draw %d: %s raised %s: %s' % (draw, ep, name, str(e)[:400]),
                        'error:' + str(name) + ':' + _family(case['h']))
                break
        if viol:
            break
        if len(set(cls.values())) > 1:
            viol = ('verdict_mismatch', 'draw %d: %r' % (draw, cls), 'mismatch:' + '/'.join('%s=%s' % (k[:6], v[0]) for k, v in sorted(cls.items())))
            break
        if cls['is_bearable'] == 'accept':
            for ep in ('param', 'return'):
                if res[ep]['value_same'] is not True or res[ep]['ran'] != 1:
                    viol = ('accept_not_transparent', 'draw %d: %s: ran=%r same=%r' % (draw, ep, res[ep]['ran'], res[ep]['value_same']), 'transparent')
            continue
        # rejection shape
        for ep in ('die_if_unbearable', 'typehint_die', 'param', 'return'):
            if ep not in res:
                continue        # (TypeHint route not applicable to this hint, see entry.Prepared.entry_points)
            o = res[ep]
            want = {'die_if_unbearable': conf.violation_door_type, 'typehint_die': conf.violation_door_type,
                    'param': conf.violation_param_type, 'return': conf.violation_return_type}[ep]
            if issubclass(want, Warning):
                probes['warning_mode_rejections'] += 1
                ws = [c for c, m in o['warns'] if c is want]
                if o['verdict'] != 'accept' or len(ws) != 1:
                    viol = ('warn_not_proceed', 'draw %d: %s under warning class %s: verdict=%s warnings=%r' % (
                        draw, ep, want.__name__, o['verdict'], [c.__name__ for c, _ in o['warns']]), 'warn:' + ep)
                    break
                if ep in ('param', 'return') and (o['ran'] != 1 or o['value_same'] is not True):
                    viol = ('warn_not_proceed', 'draw %d: %s warned but the call did not proceed (ran=%r)' % (draw, ep, o['ran']), 'warnrun:' + ep)
                    break
                msg = [m for c, m in o['warns'] if c is want][0]
            else:
                if o['exc'] is not want:
                    viol = ('wrong_class', 'draw %d: %s raised %s, configured %s' % (
                        draw, ep, getattr(o['exc'], '__name__', o['exc']), want.__name__), 'class:' + ep)
                    break
                if ep == 'param' and o['ran'] != 0:
                    viol = ('ran_despite_rejection', 'draw %d: parameter rejected but the callable ran' % draw, 'ran')
                    break
                msg = str(o['exc_obj'])
                probes['rejections_explained'] += 1
                e = o['exc_obj']
                if isinstance(e, roar.BeartypeCallHintViolation):
                    cul = e.culprits
                    x = o['x']
                    # the rejected object itself; its repr() only where it cannot be weakly referenced (it is still alive here)
                    ok = len(cul) >= 1 and (cul[0] is x or (not _weakrefable(x) and _same_repr(cul[0], x)))
                    if len(cul) >= 1 and isinstance(cul[0], str) and cul[0] is not x:
                        probes['nonweakrefable_culprit'] += 1
                    if not ok:
                        viol = ('bad_culprits', 'draw %d: %s culprits=%r object=%r' % (draw, ep, [repr(c)[:80] for c in cul], repr(x)[:80]), 'culprits:' + ep)
                        break
            if not _hint_named(msg, hint):
                viol = ('bad_message', 'draw %d: %s message does not name the hint %r: %s' % (draw, ep, hint, msg[:300]),
                        'message:' + ep + ':' + _family(case['h']))
                break
        if viol:
            break
    vs = set(verdicts_by_draw.values())
    if len(vs) > 1:
        probes['verdict_depends_on_draw'] = 1
    if vs == {'accept'}:
        probes['all_accept'] = 1
    return _out(case, probes, viol, nontrivial=(len(vs) > 1 or probes['rejections_explained'] > 0 or probes['warning_mode_rejections'] > 0))


def _weakrefable(x):
    import weakref
    if x is None:
        return True         # (None is stored specially and comes back as None)
    try:
        weakref.ref(x)
        return True
    except TypeError:
        return False


def _same_repr(c, x):
    """The documented stand-in for objects that cannot be weakly referenced: their (possibly quoted,
    possibly truncated) machine-readable representation."""
    try:
        if not isinstance(c, str):
            return False
        r = repr(x)
        c2 = c.strip('"\'')
        return c == r or c2[:40] == r.strip('"\'')[:40] or r[:30] in c
    except Exception:   # noqa
        return False


def _family(h):
    ks = []

    def walk(d):
        ks.append(d['k'])
        for a in d.get('a', []) or []:
            if isinstance(a, dict):
                walk(a)
    walk(h)
    return '>'.join(ks[:3])


def _out(case, probes, viol, nontrivial=False, harness=None):
    out = {'digest': kernel.stable_hash([case['h'], case['x'], case['conf']]), 'nontrivial': bool(nontrivial),
           'probes': probes, 'stats': {'draws': len(case.get('draws', []))}, 'violation': None}
    if harness:
        out['harness'] = harness
    if viol:
        out['violation'] = {'kind': viol[0], 'detail': viol[1][:2500], 'key': viol[2]}
    return out


# ------------------------------------------------------------------ shrinking (structural, shared by the sampler properties)
def shrink_hint(h):
    """Smaller hints: children, then the hint with one child simplified."""
    for a in h.get('a', []) or []:
        if isinstance(a, dict):
            yield a
    if h['k'] in ('union', 'pipe') and len(h['a']) > 2:
        for i in range(len(h['a'])):
            yield dict(h, a=h['a'][:i] + h['a'][i + 1:])
    if h['k'] == 'ann' and len(h.get('v', [])) > 1:
        for i in range(len(h['v'])):
            yield dict(h, v=h['v'][:i] + h['v'][i + 1:])
    for i, a in enumerate(h.get('a', []) or []):
        if isinstance(a, dict):
            for s in shrink_hint(a):
                yield dict(h, a=h['a'][:i] + [s] + h['a'][i + 1:])


def shrink_obj(o):
    items = o.get('i')
    if isinstance(items, list) and items:
        if len(items) > 1:
            for i in range(len(items)):
                yield dict(o, i=items[:i] + items[i + 1:])
        for i, it in enumerate(items):
            if isinstance(it, dict):
                yield it
                for s in shrink_obj(it):
                    yield dict(o, i=items[:i] + [s] + items[i + 1:])


def shrink(case, violation):
    if case.get('sig', 'pos') != 'pos':
        yield dict(case, sig='pos')
    if len(case['draws']) > 1:
        for d in case['draws']:
            yield dict(case, draws=[d])
    if case['conf'] and case['conf'] != {'is_color': False}:
        yield dict(case, conf={'is_color': False})
        for k in list(case['conf']):
            c = dict(case['conf'])
            del c[k]
            yield dict(case, conf=c)
    n = 0
    for h in shrink_hint(case['h']):
        n += 1
        if n > 60:
            break
        yield dict(case, h=h)
    n = 0
    for o in shrink_obj(case['x']):
        n += 1
        if n > 60:
            break
        yield dict(case, x=o)


SIGNATURES = {}


def describe(case):
    return {'sig': case.get('sig', 'pos'), 'hint': case['h'], 'object': case['x'], 'conf': case['conf'], 'draws': case['draws'], 'mode': case['mode']}
