"""C15 -- the public API is safe to use from many threads under every interleaving.

System under simulation: the real beartype API, 2-4 real threads under the baton
scheduler (sim/sched.py), all beartype locks simulated, pristine forked child per
run. Oracle: outcomes equal those of some sequential order of the same
operations; singletons are shared; no deadlock; process-global hooks restored at
quiescence (DESIGN.md section 5, C15).
"""
import itertools
import os
import sys

from sim import hints as H
from sim import kernel, ops

ID = 'C15'
DIGEST_LAYOUT_SENSITIVE = True      # see DESIGN.md 11.3: sets of types inside beartype are ordered by object addresses
BATCH = True      # many runs per forked child, state restored in place between runs (sim/state.py)
RULE = ('seeded generation of 2-4 threads x 1-4 public-API operations (BeartypeConf, TypeHint, is_bearable, '
        'die_if_unbearable, @beartype + call, is_subhint, infer_hint, TypeHint wrapper use (children, comparisons, checks), claw registrations/queries, beartyping blocks) '
        'over shared-cold, shared-warm and private hints, a 0-3 operation sequential prelude, and a seeded schedule '
        '(uniform / hot-region / hot-points / after-pool-call / PCT) deciding every line-level switch inside beartype; a run is non-trivial when at '
        'least one pre-emption actually happened, distinct = distinct (task,file,line) event digests')
INTERLEAVING_MEASURE = 'distinct digests of the (task, file, line) event sequence; switch_pairs = distinct (from-line, to-line) pre-emption pairs'
COMPONENTS = {
    'real': ['beartype (all of it, from /repo working tree)', 'CPython threads (one runs at a time)', 'warnings module',
             'importlib'],
    'stub': ['threading.Lock/RLock created by beartype -> SimLock/SimRLock', 'thread scheduling (baton + sys.settrace line events)',
             'sampler draw (constant per run)', 'process boundary = fork',
             'warnings.catch_warnings modelled as thread-local (no global state touched, nothing serialised) in "avoid" runs, real in the others (known finding C15-catch-warnings)'],
}
ASSUMPTIONS = [
    'interleavings are explored at source-line granularity inside beartype frames and generated wrappers under the GIL; '
    'bytecode-level windows inside one line, C-level races and the free-threaded build are not modelled',
    'frames outside beartype (stdlib, user callbacks) are atomic unless they call back into beartype',
    'no pre-emption while the global import lock is held or while the running task is inside an import',
]
PROBES = ['preempted_runs', 'lock_contended', 'cold_shared_hint', 'conf_race', 'typehint_race', 'typehint_use_ops', 'claw_ops', 'warn_mode_ops',
          'fwdref_first_calls']

HOT = ['utilcachepool', 'utilmapunbounded', 'confmain', 'clawpkg', 'utilcachecall', 'doormeta', 'doorsuper', 'fwdrefmeta', 'fwdresolve',
       '_clawimpfileloader', 'checkmake', 'utilerrwarn', 'decorcache', 'clawstate', 'utilmaplru', 'utilcacheobjattr']


def tiers(tier):
    if tier == 'thorough':
        return {'runs': 80000, 'wall': 900, 'chunk': 25, 'det_runs': 20, 'chunks_per_job': 8}
    return {'runs': 5000, 'wall': 70, 'chunk': 10, 'det_runs': 10}


# ------------------------------------------------------------------ generation
CONF_POOL = [
    None, {}, {'is_debug': False}, {'is_color': False}, {'strategy': 'O1'}, {'strategy': 'On'},
    {'tower': True}, {'vt': 'warn'}, {'vdoor': 'warn'}, {'vt': 'exc'}, {'is_random': False} if False else {'tower': False},
    {'vparam': 'valueerror'}, {'is_color': False, 'tower': True},
]

PKG_NAMES = ['aa', 'aa.bb', 'aa.bb.cc', 'bb', 'bb.aa', 'cc', 'aa.cc']


def _gen_hint_obj(rng, shared):
    if shared and rng.random() < 0.7:
        return rng.choice(shared)
    h = H.gen_hint(rng, rng.choice([1, 2, 2, 3]))
    r = rng.random()
    o = None
    try:
        if r < 0.5:
            o = H.gen_conforming(rng, h)
        elif r < 0.85:
            o = H.gen_violating(rng, h)[0]
    except H.CannotGenerate:
        o = None
    if o is None:
        o = H.gen_any_obj(rng, 2)
    return [h, o]


def _hashable_hint(h):
    # hints containing Box/ListBox/Pair generics or validators are still hashable; all DSL hints are.
    return True


def gen_op(rng, shared, claw_ok=True):
    r = rng.random()
    if r < 0.14:
        return {'op': 'conf', 'kw': rng.choice([c for c in CONF_POOL if c is not None])}
    if r < 0.20:
        return {'op': 'typehint', 'h': _gen_hint_obj(rng, shared)[0]}
    if r < 0.26:
        # use of a (shared) TypeHint wrapper: its lazily computed members (children, comparisons, checks)
        h, o = _gen_hint_obj(rng, shared)
        return {'op': 'th_use', 'h': h, 'x': o, 'b': _gen_hint_obj(rng, shared)[0],
                'mode': rng.choice(['children', 'cmp', 'bearable', 'die', 'repr_hash'])}
    if r < 0.46:
        h, o = _gen_hint_obj(rng, shared)
        return {'op': 'is_bearable', 'h': h, 'x': o, 'conf': rng.choice(CONF_POOL)}
    if r < 0.58:
        h, o = _gen_hint_obj(rng, shared)
        return {'op': 'die', 'h': h, 'x': o, 'conf': rng.choice(CONF_POOL)}
    if r < 0.74:
        h, o = _gen_hint_obj(rng, shared)
        return {'op': 'decor_call', 'h': h, 'x': o, 'conf': rng.choice(CONF_POOL),
                'pos': rng.choice(['param', 'return', 'both'])}
    if r < 0.79:
        a = _gen_hint_obj(rng, shared)[0]
        b = _gen_hint_obj(rng, shared)[0]
        return {'op': 'is_subhint', 'a': a, 'b': b}
    if r < 0.83:
        return {'op': 'infer', 'x': H.gen_any_obj(rng, 2)}
    if r < 0.86:
        return {'op': 'decor_class', 'h': _gen_hint_obj(rng, shared)[0], 'x': _gen_hint_obj(rng, shared)[1],
                'conf': rng.choice(CONF_POOL), 'name': 'K%d' % rng.randrange(10 ** 6) if rng.random() < 0.9 else 'K'}
    if not claw_ok:
        return {'op': 'typehint', 'h': _gen_hint_obj(rng, shared)[0]}
    if r < 0.93:
        n = rng.choice([1, 1, 2])
        return {'op': 'claw_pkg', 'names': rng.sample(PKG_NAMES, n),
                'conf': rng.choice([None, {'is_debug': False}, {'tower': True}, {'vt': 'warn'}])}
    if r < 0.98:
        return {'op': 'claw_query', 'name': rng.choice(PKG_NAMES + ['aa.bb.cc.dd', 'zz'])}
    return {'op': 'beartyping', 'conf': rng.choice([None, {'tower': True}]),
            'body': [{'op': 'claw_query', 'name': rng.choice(PKG_NAMES)}]}


def _flatten(oplist):
    """``with beartyping(): body`` is three API steps (enter, body, exit) that other threads may interleave with."""
    out = []
    for o in oplist:
        if o['op'] == 'beartyping':
            out.append({'op': 'bt_enter', 'conf': o['conf']})
            out.extend(o['body'])
            out.append({'op': 'bt_exit'})
        else:
            out.append(o)
    return out


def gen_strategy(rng):
    r = rng.random()
    if r < 0.10:
        # right after a pool acquire / release returned (scratch objects must stay private to the in-flight operation)
        return {'kind': 'afterhot', 'hot': ['utilcachepool'], 'window': rng.choice([1, 2, 3, 5]),
                'p_after': rng.choice([0.2, 0.5, 1.0]), 'p_hot': rng.choice([0.0, 0.05]), 'p_cold': rng.choice([0.0, 0.001, 0.005])}
    if r < 0.20:
        return {'kind': 'hotpct', 'points': sorted(rng.sample(range(1, 400), rng.choice([1, 2, 3, 4]))), 'hot': HOT,
                'p_cold': rng.choice([0.0, 0.001, 0.005])}
    if r < 0.35:
        return {'kind': 'uniform', 'p': rng.choice([0.005, 0.01, 0.02, 0.05, 0.1, 0.2])}
    if r < 0.7:
        return {'kind': 'hot', 'p_hot': rng.choice([0.05, 0.1, 0.25, 0.5]), 'p_cold': rng.choice([0.0, 0.002, 0.01]),
                'hot': HOT}
    return {'kind': 'pct', 'd': rng.choice([1, 2, 3]), 'est_steps': rng.choice([300, 1000, 3000, 8000])}


def generate(rng, run, tier):
    nshared = rng.randint(1, 3)
    shared = []
    for _ in range(nshared):
        shared.append(_gen_hint_obj(rng, None))
    nthreads = rng.choice([2, 2, 2, 3, 3, 4])
    # Mirror workloads (all threads do the same cold thing) are the classic race shape.
    mirror = rng.random() < 0.3
    threads = []
    if mirror:
        base = [gen_op(rng, shared) for _ in range(rng.randint(1, 3))]
        threads = [list(base) for _ in range(nthreads)]
    else:
        for _ in range(nthreads):
            threads.append([gen_op(rng, shared) for _ in range(rng.randint(1, 4))])
    threads = [_flatten(t) for t in threads]
    prelude = [gen_op(rng, shared, claw_ok=False) for _ in range(rng.choice([0, 0, 1, 2, 3]))]
    strategy = gen_strategy(rng)
    if rng.random() < 0.2:
        # scenario "shallow pools": one sequential cold check leaves every object pool at depth 1, then all threads
        # run one cold check/decoration each with pre-emption concentrated on the pool / memo-table modules
        prelude = [{'op': 'is_bearable', 'h': {'k': 'seq', 'o': 'list', 'a': [{'k': 'cls', 'n': 'int'}]},
                    'x': {'o': 'list', 'i': [{'o': 'int', 'v': 1}]}, 'conf': None}][:rng.choice([0, 1, 1])]
        threads = []
        for _ in range(nthreads):
            h, o = _gen_hint_obj(rng, None)
            threads.append([{'op': rng.choice(['is_bearable', 'die', 'decor_call']), 'h': h, 'x': o, 'conf': None, 'pos': 'param'}])
        strategy = {'kind': 'hotpct', 'points': sorted(rng.sample(range(1, 60), rng.choice([2, 3, 4]))),
                    'hot': ['utilcachepool.py'], 'p_cold': rng.choice([0.0005, 0.001, 0.002])}
        if rng.random() < 0.5:
            # ... or concentrated on the windows right after a pool call returned
            strategy = {'kind': 'afterhot', 'hot': ['utilcachepool'], 'window': rng.choice([1, 2, 3]),
                        'p_after': rng.choice([0.1, 0.25, 0.5]), 'p_hot': 0.0, 'p_cold': rng.choice([0.0, 0.0005, 0.001])}
    if rng.random() < 0.07:
        # scenario "first resolution": one function decorated (sequentially, in the prelude) with a string annotation whose
        # name is defined only afterwards; all threads then call it for the first time at once (forward-reference proxy
        # resolution and its memo tables under contention), some with conforming, some with violating arguments
        text = rng.choice(['Later', 'list[Later]', 'Optional[Later]', 'dict[str, Later]', 'tuple[Later, ...]', 'Later | None'])
        prelude = [{'op': 'fwd_def', 'text': text, 'nfuncs': rng.choice([1, 1, 2])}]
        threads = [[{'op': 'fwd_call', 'f': rng.randrange(2), 'xk': rng.choice(['inst', 'inst', 'wrapped', 'other', 'int'])}
                    for _ in range(rng.randint(1, 3))] for _ in range(nthreads)]
    if rng.random() < 0.06:
        # scenario "registry race": every thread registers two packages under its own configuration; all lists share one
        # name, placed first by one thread and later by the others; pre-emption concentrated on the registration code
        # (check-then-act between the conflict pre-check and the registry mutation)
        shared_name = rng.choice(PKG_NAMES)
        rest = [n for n in PKG_NAMES if n != shared_name]
        rng.shuffle(rest)
        confs = [None, {'tower': True}, {'vt': 'warn'}, {'is_color': False, 'tower': True}]
        rng.shuffle(confs)
        threads = []
        for ti in range(nthreads):
            names = [shared_name, rest[ti]] if ti == 0 else [rest[ti], shared_name]
            threads.append([{'op': 'claw_pkg', 'names': names, 'conf': confs[ti % len(confs)] if rng.random() < 0.85 else confs[0]}])
        prelude = []
        strategy = {'kind': 'hotpct', 'points': sorted(rng.sample(range(1, 260), rng.choice([2, 3, 4]))), 'hot': ['clawpkgmain.py'],
                    'p_cold': rng.choice([0.0, 0.001])}
    if rng.random() < 0.05:
        # scenario "lookup against registration": one thread looks modules up (what every hooked import does) while another
        # registers their package under a configuration whose skip list names them; looked up before the registration a
        # module is unregistered, after it it is skipped - never checked. Pre-emption concentrated on the lookup code.
        top = rng.choice(['aa', 'bb'])
        subs = [n for n in PKG_NAMES if n.startswith(top + '.')]
        skipped = rng.sample(subs, rng.randint(1, len(subs)))
        lookups = [{'op': 'claw_query', 'name': rng.choice(skipped + [s_ + '.zz' for s_ in skipped])} for _ in range(rng.randint(1, 3))]
        reg = [{'op': 'claw_pkg', 'names': [top], 'conf': {'skip': skipped}}]
        threads = [lookups, reg] + [[{'op': 'claw_query', 'name': rng.choice(skipped)}] for _ in range(max(0, nthreads - 2))]
        rng.shuffle(threads)
        prelude = []
        strategy = {'kind': 'hotpct', 'points': sorted(rng.sample(range(1, 120), rng.choice([1, 2, 3]))), 'hot': ['clawpkgtrie.py'],
                    'p_cold': rng.choice([0.0, 0.001])}
    avoid_cw = rng.random() < 0.8
    if avoid_cw:
        # known finding C15-catch-warnings: warnings.catch_warnings is process-global. Most runs steer around it:
        # no warning-mode violations inside threads (and catch_warnings sections serialised, see execute()).
        for t in threads:
            for i, o in enumerate(t):
                if ops.conf_is_warn(o.get('conf')):
                    o2 = dict(o)
                    o2['conf'] = {k: ('exc' if v in ('warn', 'userwarning') else v) for k, v in o['conf'].items()}
                    t[i] = o2
    return {
        'threads': threads,
        'prelude': prelude,
        'strategy': strategy,
        'sched_seed': rng.getrandbits(48),
        'draw': rng.choice([0, 1, 2, 3, 5, 2 ** 31, 2 ** 32 - 1, rng.getrandbits(32)]),
        # avoid switch for known finding C15-catch-warnings: serialise catch_warnings in most runs
        'avoid_cw': avoid_cw,
        'step_cap': 200000,
    }


# ------------------------------------------------------------------ execution (inside a forked child)
def _run_op(op, ctx):
    """Execute one operation; returns normalised outcome (JSON-able)."""
    import beartype
    from beartype import door
    k = op['op']
    rec = ctx['rec']
    rec.take()
    try:
        if k == 'conf':
            c = ops.build_conf(op['kw'])
            ctx['confs'].append((kernel.stable_hash(sorted((op['kw'] or {}).items())), c))
            out = ['ok', repr(c)]
        elif k == 'typehint':
            hint = H.build_hint(op['h'])
            th = door.TypeHint(hint)
            ctx['typehints'].append((hint, th))
            out = ['ok', type(th).__name__]
        elif k == 'th_use':
            hint = H.build_hint(op['h'])
            th = door.TypeHint(hint)
            ctx['typehints'].append((hint, th))
            m = op['mode']
            if m == 'children':
                # (identity of the child wrappers is left to the end-of-run singleton check: comparing two TypeHint() calls
                # inside one operation would span two API calls, between which another thread may legitimately clear the
                # caches by redefining a same-named decorated class)
                kids = list(th)
                for c in kids:
                    # (a child wrapper reports the *normalised* hint: None and NoneType are two spellings - two cache keys, two
                    # wrappers, sequentially too - of one child, so that child is left out of the singleton comparison)
                    if c.hint is not type(None):
                        ctx['typehints'].append((c.hint, c))
                out = ['ok', [len(th), [type(c).__name__ for c in kids]]]
            elif m == 'cmp':
                other = door.TypeHint(H.build_hint(op['b']))
                out = ['ok', [th == other, other == th, th <= other, other <= th, th < other, th.is_subhint(other), other.is_superhint(th)]]
            elif m == 'bearable':
                out = ['ok', th.is_bearable(H.build_obj(op['x']))]
            elif m == 'die':
                th.die_if_unbearable(H.build_obj(op['x']))
                out = ['ok', None]
            else:
                out = ['ok', [hash(th) == hash(door.TypeHint(hint)), th.is_ignorable, bool(th)]]
        elif k == 'is_bearable':
            out = ['ok', door.is_bearable(H.build_obj(op['x']), H.build_hint(op['h']), conf=ops.build_conf(op['conf']))]
        elif k == 'die':
            door.die_if_unbearable(H.build_obj(op['x']), H.build_hint(op['h']), conf=ops.build_conf(op['conf']))
            out = ['ok', None]
        elif k == 'decor_call':
            f = ops.make_decorated(H.build_hint(op['h']), ops.build_conf(op['conf']), op['pos'])
            x = H.build_obj(op['x'])
            r = f(x)
            out = ['ok', r is x]
        elif k == 'decor_class':
            hint = H.build_hint(op['h'])

            class K:
                def m(self, a):
                    return a

                @classmethod
                def c(cls, a):
                    return a
            K.__name__ = K.__qualname__ = op.get('name', 'K')
            K.m.__annotations__ = {'a': hint}
            K.c.__func__.__annotations__ = {'a': hint}
            K2 = beartype.beartype(conf=ops.build_conf(op['conf']))(K)
            x = H.build_obj(op['x'])
            r1 = _norm_call(lambda: K2().m(x))
            r2 = _norm_call(lambda: K2.c(x))
            out = ['ok', [K2 is K, r1, r2]]
        elif k == 'fwd_def':
            import sys as _sys
            import types as _types
            mod = _types.ModuleType('c15_fwd_mod')
            _sys.modules['c15_fwd_mod'] = mod
            src = 'from beartype import beartype\nfrom typing import Optional\n'
            for j in range(op.get('nfuncs', 1)):
                src += '@beartype\ndef f%d(a: %r):\n    return a\n' % (j, op['text'])
            exec(compile(src, '<c15-fwd>', 'exec'), mod.__dict__)
            mod.Later = type('Later', (), {'__module__': 'c15_fwd_mod'})       # defined only after the decorations
            if os.environ.get('VERIF_TRACE_RUN'):
                with open('/tmp/c15_ids_%d.txt' % os.getpid(), 'a') as _f:
                    _f.write('Later=%x mod=%x f0=%x NoneType=%x newobj=%x newlist=%x bigbytes=%x\n' % (
                        id(mod.Later), id(mod), id(mod.f0), id(type(None)), id(object()), id([0] * 100), id(bytes(300000))))
            ctx['fwd'] = (mod, op['text'])
            out = ['ok', None]
        elif k == 'fwd_call':
            mod, text = ctx['fwd']
            f = getattr(mod, 'f%d' % op['f'], None) or mod.f0
            inst = mod.Later()
            x = {'inst': inst, 'other': object(), 'int': 5}.get(op['xk'])
            if op['xk'] == 'wrapped':
                x = [inst] if text.startswith('list') else ({'k': inst} if text.startswith('dict') else ((inst,) if text.startswith('tuple') else inst))
            r = f(x)
            out = ['ok', r is x]
        elif k == 'is_subhint':
            out = ['ok', door.is_subhint(H.build_hint(op['a']), H.build_hint(op['b']))]
        elif k == 'infer':
            # union members come out in set order (address-dependent): compare order-insensitively
            out = ['ok', ''.join(sorted(repr(door.infer_hint(H.build_obj(op['x'])))))]
        elif k == 'claw_pkg':
            from beartype import claw
            conf = ops.build_conf(op['conf'])
            if len(op['names']) == 1:
                claw.beartype_package(op['names'][0], conf=conf)
            else:
                claw.beartype_packages(tuple(op['names']), conf=conf)
            out = ['ok', None]
        elif k == 'claw_query':
            out = ['ok', _claw_query(op['name'])]
        elif k == 'bt_enter':
            from beartype import claw
            cm = claw.beartyping(conf=ops.build_conf(op['conf']))
            cm.__enter__()
            ctx['cms'].setdefault(_thread_key(), []).append(cm)
            out = ['ok', None]
        elif k == 'bt_exit':
            stack = ctx['cms'].get(_thread_key()) or []
            if stack:
                stack.pop().__exit__(None, None, None)
                out = ['ok', None]
            else:
                out = ['ok', 'no-open-block']
        else:
            raise ValueError(op)
    except Exception as e:      # noqa
        out = ops.exc_outcome(e)
    w = rec.take()
    if w:
        out = out + [['warnings'] + sorted(w)]
    return out


def _thread_key():
    from sim import sched
    s = sched.ACTIVE
    if s is None:
        return -1
    t = s.by_ident.get(sched._get_ident())
    return -1 if t is None else (t.tid if len(s.tasks) > 1 else ctx_serial_tid[0])


ctx_serial_tid = [0]


def _norm_call(fn):
    try:
        fn()
        return 'ok'
    except Exception as e:      # noqa
        return ops.exc_outcome(e)


def _claw_query(name):
    from beartype.claw._package.clawpkgtrie import get_package_conf_or_none
    c = get_package_conf_or_none(name)
    return None if c is None else repr(c)


def _hook_count():
    return ops.beartype_hook_count()


def _install_cw_task_local(rec):
    """Avoid switch for known finding C15-catch-warnings: model ``warnings.catch_warnings`` *as if it were
    local to the calling thread* (what Python 3.14's context-aware warnings provide). Sections opened by one
    simulated task neither touch process-global state nor see the warnings of another task; nothing is
    serialised, so cold code generation of several threads still overlaps freely."""
    import warnings
    from sim import sched
    cw = warnings.catch_warnings
    stacks = {}         # task id -> list of entries: ['record', list] | ['ignore', category or None] | ['plain']

    def tid():
        s = sched.ACTIVE
        if s is None:
            return -1
        t = s.by_ident.get(sched._get_ident())
        return -1 if t is None else t.tid

    def enter(self):
        st = stacks.setdefault(tid(), [])
        if self._record:
            log = []
            st.append(['record', log])
            return log
        action = getattr(self, '_filter', None)
        if action is not None and action[0] == 'ignore':
            st.append(['ignore', action[1]])
        else:
            st.append(['plain'])
        return None

    def exit_(self, *a):
        st = stacks.get(tid())
        if st:
            st.pop()
        return None

    def show(message, category, filename, lineno, file=None, line=None):
        st = stacks.get(tid()) or []
        for e in reversed(st):
            if e[0] == 'ignore' and (e[1] is None or issubclass(category, e[1])):
                return
            if e[0] == 'record':
                e[1].append(warnings.WarningMessage(message, category, filename, lineno, file, line))
                return
        rec._show(message, category, filename, lineno, file, line)
    cw.__enter__ = enter
    cw.__exit__ = exit_
    warnings.showwarning = show
    return show


def _install_cw_tracker(log):
    """Record overlapping catch_warnings sections (task, call site) for the known-finding signature."""
    import warnings
    from sim import sched
    cw = warnings.catch_warnings
    orig_enter, orig_exit = cw.__enter__, cw.__exit__
    open_sections = []

    def _site():
        f = sys._getframe(2)
        while f is not None and '/beartype/' not in f.f_code.co_filename:
            f = f.f_back
        if f is None:
            return 'user'
        return '%s:%d' % (f.f_code.co_filename.rsplit('/', 1)[-1], f.f_lineno)

    def _tid():
        s = sched.ACTIVE
        if s is None:
            return -1
        t = s.by_ident.get(sched._get_ident())
        return -1 if t is None else t.tid

    _tid_now = _tid

    def enter(self):
        tid = _tid()
        site = _site()
        for (otid, osite, _) in open_sections:
            if otid != tid:
                log.append(sorted([osite, site]))
        open_sections.append((tid, site, self))
        r = orig_enter(self)
        if self._record:
            lst_append = warnings._showwarnmsg_impl

            def capture(msg, _tid=tid, _site=site):
                if _tid_now() != _tid:
                    log.append(['foreign_capture', _site])
                lst_append(msg)
            warnings._showwarnmsg_impl = capture
        return r

    def exit_(self, *a):
        for i, s in enumerate(open_sections):
            if s[2] is self:
                del open_sections[i]
                break
        return orig_exit(self, *a)
    cw.__enter__ = enter
    cw.__exit__ = exit_


def execute(case):
    """Child: run the prelude, then the threads under the scheduler; report outcomes."""
    import gc
    import importlib._bootstrap_external as ibe
    import warnings
    from sim import boot, sched
    gc.disable()
    if os.environ.get('VERIF_TRACE_RUN'):
        # debugging aid: heap probe at the start of every execution (address of a fresh type object and a 2000-byte buffer)
        _t = type('Probe', (), {})
        _b = bytes(2000)
        with open('/tmp/c15_heap_%d.txt' % os.getpid(), 'a') as _f:
            _f.write('%s %s type=%x buf=%x\n' % (case.get('run'), 'serial' if case.get('serial') else 'conc', id(_t), id(_b)))
        del _t, _b
    boot.SAMPLER.reset()
    boot.SAMPLER.sticky = case['draw']
    orig_cfs = ibe.cache_from_source
    cw_overlaps = []
    rec = ops.WarnRecorder().install()
    if case.get('avoid_cw'):
        _install_cw_task_local(rec)
    else:
        _install_cw_tracker(cw_overlaps)
    showwarning_expected = warnings.showwarning
    impl_expected = warnings._showwarnmsg_impl
    filters_expected = list(warnings.filters)
    ctx = {'rec': rec, 'confs': [], 'typehints': [], 'cms': {}}
    prelude_out = [_run_op(o, ctx) for o in case['prelude']]
    outs = [[None] * len(t) for t in case['threads']]

    def mk(ti, oplist):
        def body():
            for oi, o in enumerate(oplist):
                outs[ti][oi] = _run_op(o, ctx)
        return body

    if case.get('serial'):
        strategy = {'kind': 'serial'}
    elif case.get('switches') is not None:
        strategy = {'kind': 'replay', 'switches': case['switches']}
    else:
        strategy = case['strategy']
    rng = kernel.stream(case['sched_seed'], 'sched')
    s = sched.Scheduler(strategy, rng, step_cap=case.get('step_cap', 300000))
    _trace_run = os.environ.get('VERIF_TRACE_RUN')
    if _trace_run and str(case.get('run')) == _trace_run and not case.get('serial') and case.get('serial_order') is None:
        # debugging aid: dump the (task, file, line) event sequence of one run
        _events = []
        _orig_yp = s._yield_point

        def _yp(frame, _o=_orig_yp, _e=_events):
            _e.append('%s:%d %s' % (frame.f_code.co_filename.rsplit('/', 1)[-1].split(' at 0x')[0], frame.f_lineno, frame.f_code.co_name))
            return _o(frame)
        s._yield_point = _yp
        case['_trace_events'] = _events
    order = case.get('serial_order')
    if order is not None:
        # one task executing the operations in the given global order
        def serial_body():
            for ti, oi in order:
                ctx_serial_tid[0] = ti
                outs[ti][oi] = _run_op(case['threads'][ti][oi], ctx)
        tasks = s.run([serial_body])
    else:
        tasks = s.run([mk(i, t) for i, t in enumerate(case['threads'])])
    if case.get('_trace_events') is not None:
        with open('/tmp/c15_events_%d.txt' % os.getpid(), 'w') as _f:
            _f.write('\n'.join(case.pop('_trace_events')))
    problems = []
    poisoned = False
    if s.deadlock is not None:
        problems.append(['deadlock', repr(s.deadlock)])
        poisoned = True
    for t in tasks:
        if t.error is not None:
            problems.append(['task_error', repr(t.error)[:300]])
    # singletons: equal keyword arguments -> one BeartypeConf; equal hashable hints -> one TypeHint
    groups = {}
    for key, obj in ctx['confs']:
        groups.setdefault(key, []).append(obj)
    for key, objs in groups.items():
        if any(o is not objs[0] for o in objs):
            problems.append(['singleton_conf', repr(objs[0])[:200]])
    ths = ctx['typehints']
    names = [o.get('name', 'K') for t in case['threads'] + [case['prelude']] for o in t if o['op'] == 'decor_class']
    if len(names) != len(set(names)):
        ths = []        # redefining a same-named class makes beartype clear its caches, sequentially too
    for i in range(len(ths)):
        for j in range(i + 1, len(ths)):
            hi, hj = ths[i][0], ths[j][0]
            try:
                same = (hi == hj) and hash(hi) == hash(hj) and type(hi) is type(hj)
            except Exception:
                same = False
            if same and ths[i][1] is not ths[j][1]:
                problems.append(['singleton_typehint', repr(hi)[:200]])
    # global hooks at quiescence
    quiesce = {}
    # importlib's cache_from_source must behave like the original at quiescence (it may stay wrapped)
    try:
        same = ibe.cache_from_source('/x/pkg/mod.py') == orig_cfs('/x/pkg/mod.py')
    except Exception as e:      # noqa
        same = repr(e)
    if same is not True:
        problems.append(['cache_from_source_not_restored', repr(same)])
    if _hook_count() > 1:
        problems.append(['duplicate_path_hook', str(_hook_count())])
    if warnings.showwarning is not showwarning_expected or warnings._showwarnmsg_impl is not impl_expected:
        problems.append(['warn_hook_corrupt', 'showwarning=%r impl=%r' % (
            getattr(warnings.showwarning, '__qualname__', repr(warnings.showwarning)),
            getattr(warnings._showwarnmsg_impl, '__qualname__', repr(warnings._showwarnmsg_impl)))])
    elif list(warnings.filters) != filters_expected:
        problems.append(['warn_filters_corrupt', '%d vs %d filters' % (len(warnings.filters), len(filters_expected))])
    else:
        # behavioural check: a warning-mode violation is still delivered
        from beartype import door
        rec.take()
        try:
            door.die_if_unbearable('x', int, conf=ops.build_conf({'vt': 'warn'}))
        except Exception as e:      # noqa
            problems.append(['warn_mode_raised', repr(e)[:200]])
        w = rec.take()
        if w != ['UserWarningV']:
            problems.append(['warning_lost_after_quiescence', repr(w)])
    final_state = {'queries': [_claw_query(n) for n in PKG_NAMES + ['aa.bb.cc.dd', 'zz']], 'hooks': _hook_count()}
    probes = {
        'preempted_runs': 1 if s.stats['preempt'] else 0,
        'lock_contended': s.stats['lock_contended'],
        'cold_shared_hint': 1 if _has_shared_cold(case) else 0,
        'conf_race': 1 if sum(1 for t in case['threads'] if any(o['op'] == 'conf' for o in t)) > 1 else 0,
        'typehint_race': 1 if sum(1 for t in case['threads'] if any(o['op'] in ('typehint', 'th_use') for o in t)) > 1 else 0,
        'typehint_use_ops': sum(1 for t in case['threads'] for o in t if o['op'] == 'th_use'),
        'fwdref_first_calls': sum(1 for t in case['threads'] for o in t if o['op'] == 'fwd_call'),
        'claw_ops': sum(1 for t in case['threads'] for o in t if o['op'].startswith('claw') or o['op'].startswith('bt_')),
        'warn_mode_ops': sum(1 for t in case['threads'] for o in t if ops.conf_is_warn(o.get('conf'))),
        'cw_overlaps': len(cw_overlaps),
    }
    return {
        'outs': outs, 'prelude_out': prelude_out, 'problems': problems, 'final_state': final_state,
        'digest': '%012x' % s.digest, 'steps': s.step, 'switches': [list(x) for x in s.switches],
        'sched_stats': dict(s.stats), 'capped': s.capped, 'pairs': [list(p) for p in list(s.pairs)[:400]],
        'probes': probes, 'cw_overlaps': cw_overlaps[:20], 'poisoned': poisoned,
    }


def _has_shared_cold(case):
    seen = {}
    for ti, t in enumerate(case['threads']):
        for o in t:
            if 'h' in o:
                k = kernel.stable_hash(o['h'])
                if k in seen and seen[k] != ti:
                    return True
                seen.setdefault(k, ti)
    return False


STATEFUL = ('claw_pkg', 'claw_query', 'bt_enter', 'bt_exit')


def _is_stateful(op):
    return op['op'] in STATEFUL


def run_case(case, spawn):
    """Pristine worker: concurrent child, serial child, then the sequential-order oracle."""
    conc = spawn(execute, case)
    if conc.get('harness'):
        return conc
    out = {
        'digest': conc['digest'], 'steps': conc['steps'], 'pairs': conc['pairs'],
        'nontrivial': conc['sched_stats']['preempt'] > 0,
        'stats': {'preempt': conc['sched_stats']['preempt'], 'forced_switch': conc['sched_stats']['forced'],
                  'lock_contended': conc['sched_stats']['lock_contended'],
                  'import_lock_skips': conc['sched_stats']['import_lock_skips'],
                  'cw_overlap': conc['probes']['cw_overlaps']},
        'probes': conc['probes'],
        'inconclusive': bool(conc['capped']),
        'record': {'switches': conc['switches']},
        'violation': None,
        'poisoned': conc.get('poisoned', False),
    }
    cw = conc.get('cw_overlaps') or []

    def viol(kind, detail, key=''):
        out['violation'] = {'kind': kind, 'detail': detail, 'key': key or kind, 'cw_overlaps': cw}
        return out

    if conc['problems']:
        p = conc['problems'][0]
        return viol(p[0], '%s: %s' % (p[0], p[1]))
    serial_case = dict(case)
    serial_case['serial'] = True
    serial_case.pop('switches', None)
    ser = spawn(execute, serial_case)
    if ser.get('harness'):
        return ser
    if conc['capped']:
        if ser['capped']:
            return out          # the workload itself is too long: inconclusive
        out['inconclusive'] = False
        return viol('no_progress_within_step_cap',
                    'threads did not finish within %d steps although the sequential run needs %d' % (
                        case.get('step_cap', 0), ser['steps']))
    if ser['problems']:
        # The sequential run itself misbehaves: not a concurrency matter (belongs to C06/C14).
        out['stats']['serial_problem'] = 1
        return out
    mism = []
    for ti, (a, b) in enumerate(zip(conc['outs'], ser['outs'])):
        for oi, (x, y) in enumerate(zip(a, b)):
            if x != y:
                mism.append((ti, oi, x, y))
    state_differs = conc['final_state'] != ser['final_state']
    if not mism and not state_differs:
        return out
    out['stats']['serial_mismatch'] = 1
    # Stage 2. Pure operations: compare with the solo answer too.
    threads = case['threads']
    stateful_mismatch = state_differs or any(_is_stateful(threads[ti][oi]) for ti, oi, _, _ in mism)
    for ti, oi, x, y in mism:
        op = threads[ti][oi]
        if _is_stateful(op):
            continue
        solo_case = dict(case)
        solo_case.update({'threads': [[op]], 'serial': True, 'prelude': case['prelude']})
        solo_case.pop('switches', None)
        solo = spawn(execute, solo_case)
        if solo.get('harness'):
            return solo
        if solo['outs'][0][0] != x:
            return viol('answer_no_thread_alone_gets',
                        'thread %d op %d %s: concurrent=%r serial=%r solo=%r' % (ti, oi, _short(op), x, y, solo['outs'][0][0]),
                        key=op['op'] + ':' + _shape(x, y))
    if not stateful_mismatch:
        out['stats']['explained_by_solo'] = 1
        return out
    # Stateful operations: some serialisation consistent with per-thread order must match.
    idx = [[(ti, oi) for oi, o in enumerate(t) if _is_stateful(o)] for ti, t in enumerate(threads)]
    total = sum(len(x) for x in idx)
    if total > 7:
        out['inconclusive'] = True
        return out
    target = [[conc['outs'][ti][oi] for (ti, oi) in lst] for lst in idx]
    n_orders = 0
    for order in _merges(idx):
        n_orders += 1
        if n_orders > 200:
            out['inconclusive'] = True
            return out
        # full global order: stateful ops in `order`, each thread's pure ops kept in place before its next stateful op
        full = _full_order(threads, order)
        oc = dict(case)
        oc.update({'serial_order': full, 'serial': True})
        oc.pop('switches', None)
        r = spawn(execute, oc)
        if r.get('harness'):
            return r
        got = [[r['outs'][ti][oi] for (ti, oi) in lst] for lst in idx]
        if got == target and r['final_state'] == conc['final_state']:
            out['stats']['explained_by_serialisation'] = 1
            return out
    return viol('no_sequential_order_explains',
                'stateful outcomes %r / final %r match none of %d serialisations' % (target, conc['final_state'], n_orders),
                key='stateful')


def _merges(lists):
    """All interleavings of the lists preserving each list's order."""
    lists = [l for l in lists if l]
    if not lists:
        yield []
        return

    def rec(pos):
        done = True
        for i, l in enumerate(lists):
            if pos[i] < len(l):
                done = False
                np = list(pos)
                np[i] += 1
                for rest in rec(np):
                    yield [l[pos[i]]] + rest
        if done:
            yield []
    yield from rec([0] * len(lists))


def _full_order(threads, stateful_order):
    pos = [0] * len(threads)
    full = []
    for (ti, oi) in stateful_order:
        while pos[ti] <= oi:
            full.append((ti, pos[ti]))
            pos[ti] += 1
    for ti, t in enumerate(threads):
        while pos[ti] < len(t):
            full.append((ti, pos[ti]))
            pos[ti] += 1
    return full


def _short(op):
    s = repr(op)
    return s if len(s) < 300 else s[:300] + '...'


def _strip_warn(v):
    if isinstance(v, list):
        return [_strip_warn(i) for i in v if not (isinstance(i, list) and i and i[0] == 'warnings')]
    return v


def _shape(x, y):
    def sh(v):
        w = '+warn' if _strip_warn(v) != v else ''
        if isinstance(v, list) and v and v[0] == 'exc':
            return 'exc:' + v[1] + w
        return 'ok' + w
    only_warn = _strip_warn(x) == _strip_warn(y)
    return sh(x) + '/' + sh(y) + ('/only-warnings-differ' if only_warn else '')


# ------------------------------------------------------------------ shrinking
def shrink(case, violation):
    # (the recorded switch list is already part of the case: replay mode)
    # 2. drop the prelude, whole threads, single operations
    if case['prelude']:
        c = dict(case)
        c['prelude'] = []
        yield c
        for cand in kernel.drop_chunks(case['prelude']):
            c = dict(case)
            c['prelude'] = cand
            yield c
    if len(case['threads']) > 2:
        for i in range(len(case['threads'])):
            c = dict(case)
            c['threads'] = case['threads'][:i] + case['threads'][i + 1:]
            c.pop('switches', None)
            yield c
    for i, t in enumerate(case['threads']):
        if len(t) > 1:
            for cand in kernel.drop_chunks(t, 1):
                c = dict(case)
                c['threads'] = case['threads'][:i] + [cand] + case['threads'][i + 1:]
                c.pop('switches', None)
                yield c
    # 3. fewer switches
    sw = case.get('switches')
    if sw and len(sw) > 1:
        for cand in kernel.drop_chunks(sw[1:], 0):
            c = dict(case)
            c['switches'] = [sw[0]] + cand
            yield c


# ------------------------------------------------------------------ known findings
def _sig_catch_warnings(case, v):
    """Overlapping warnings.catch_warnings sections opened by beartype in two threads."""
    if v.get('kind') not in ('warn_hook_corrupt', 'warn_filters_corrupt', 'warning_lost_after_quiescence',
                             'answer_no_thread_alone_gets', 'no_progress_within_step_cap'):
        return False
    if case.get('avoid_cw'):
        return False
    ov = v.get('cw_overlaps') or []
    if not ov:
        return False
    if v['kind'] == 'answer_no_thread_alone_gets':
        # only warning-delivery differences are explained by this defect
        return v.get('key', '').endswith('/only-warnings-differ')
    return True


SIGNATURES = {'catch_warnings_overlap': _sig_catch_warnings}


def describe(case):
    return {'threads': [[_short(o)[:160] for o in t] for t in case['threads']],
            'prelude': [_short(o)[:160] for o in case['prelude']],
            'strategy': {k: v for k, v in case['strategy'].items() if k != 'hot'}, 'draw': case['draw'],
            'avoid_cw': case.get('avoid_cw')}
