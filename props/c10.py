"""C10 -- checking never modifies or consumes the object being checked.

Weakest fit (DESIGN.md section 5). The checked object is treated as the
library's I/O surface: one-shot iterators, generators, map/zip/enumerate
objects, file-like iterables, defaultdicts and containers that log every method
invoked on them (sim/spies.py). Invariants: no consuming or mutating call;
``next(it)`` after the check returns what it would have returned before; a
stream that raises as soon as it is advanced never raises; len(defaultdict)
unchanged; contents equal a snapshot; the wrapped callable receives the
identical object. The sampler draw is owned by the simulator.
"""
import collections
import collections.abc as cabc
import io
import typing

from sim import entry, kernel, spies

ID = 'C10'
BATCH = True
RULE = ('seeded (hint shape, item hint, object kind, content, configuration, draws): 22 hint shapes from the Iterable/Iterator/'
        'Generator/Container/Reversible/Collection/Mapping/Sequence/Set families, bare, subscripted and nested in Optional/Union; '
        '22 object kinds incl. one-shot streams (plain, exploding, sized / sized-reversible without __contains__), generators, map/zip/enumerate/reversed objects, StringIO, '
        'defaultdict and logging containers; six entry points x 3-4 draws. Non-trivial = the object is a one-shot stream or a '
        'defaultdict, or a rejection was explained; distinct = distinct (hint, object kind, content, conf)')
INTERLEAVING_MEASURE = 'distinct (hint shape, object kind, content, configuration) cases'
COMPONENTS = {
    'real': ['beartype generated checkers, explanation path, decorator wrappers (from /repo working tree)'],
    'stub': ['the checked objects (one-shot / exploding streams, logging containers)', 'sampler draw'],
}
ASSUMPTIONS = ['user validators are not used here (their callables may do anything; C11/C12 cover them)',
               'objects are compared after the check by identity of their items in iteration order']
PROBES = ['oneshot_objects', 'exploding_streams', 'defaultdicts', 'rejections', 'logging_containers', 'cases', 'wrapped_before_culprit']


def tiers(tier):
    if tier == 'thorough':
        return {'runs': 300000, 'wall': 600, 'det_runs': 10, 'chunks_per_job': 4}
    return {'runs': 12000, 'wall': 60, 'det_runs': 8}


ITEMS = {'int': int, 'str': str, 'optint': typing.Optional[int], 'list_int': list[int]}

HINTS = {
    'Iterable': lambda t: cabc.Iterable[t], 'TIterable': lambda t: typing.Iterable[t], 'Iterable_bare': lambda t: cabc.Iterable,
    'Iterator': lambda t: cabc.Iterator[t], 'TIterator': lambda t: typing.Iterator[t], 'Iterator_bare': lambda t: cabc.Iterator,
    'Generator': lambda t: cabc.Generator[t, None, None], 'TGenerator': lambda t: typing.Generator[t, None, None],
    'Container': lambda t: cabc.Container[t], 'Reversible': lambda t: cabc.Reversible[t],
    'Collection': lambda t: cabc.Collection[t], 'Sized': lambda t: cabc.Sized,
    'Mapping': lambda t: cabc.Mapping[str, t], 'dict': lambda t: dict[str, t], 'defaultdict': lambda t: collections.defaultdict[str, t],
    'Sequence': lambda t: cabc.Sequence[t], 'list': lambda t: list[t], 'AbstractSet': lambda t: cabc.Set[t],
    'OptIterable': lambda t: typing.Optional[cabc.Iterable[t]], 'UnionIterInt': lambda t: typing.Union[cabc.Iterator[t], int],
    'UnionCollMap': lambda t: typing.Union[cabc.Collection[t], cabc.Mapping[str, t]],
    'deque': lambda t: collections.deque[t], 'ChainMap': lambda t: collections.ChainMap[str, t],
    'MutableMapping': lambda t: cabc.MutableMapping[str, t],
}
KINDS = ['ChainMapDD', 'CursorOneShot', 'CursorOneShotExplode', 'OneShot', 'OneShotExplode', 'SizedOneShot', 'SizedOneShotExplode', 'SizedReversibleOneShot', 'generator', 'map', 'zip', 'enumerate', 'reversed', 'StringIO', 'SpyDefaultDict',
         'SpyList', 'SpyTuple', 'SpyDict', 'SpySet', 'SpyDeque', 'SpySeq', 'SpyMap', 'SpyIterable', 'SpyContainer', 'SpyCollection']


# hints whose check treats everything that is structurally a Collection as re-iterable (known finding, see _sig_cursor)
CURSOR_KNOWN_HINTS = ('Collection', 'Container', 'Iterable', 'TIterable', 'OptIterable', 'UnionCollMap')


def _generate(rng, run, tier):
    conf = entry.gen_conf(rng, allow_tower=False)
    kinds = KINDS
    if rng.random() < 0.9:
        # avoid switch for known finding C10-chainmap-over-defaultdict: most cases steer around it
        kinds = KINDS[1:]       # (the cursor kinds: see below)
    case = {'hint': rng.choice(list(HINTS)), 'item': rng.choice(list(ITEMS)), 'kind': rng.choice(kinds),
            'content': rng.choice(['good', 'good', 'bad', 'mixed', 'empty']), 'n': rng.choice([1, 2, 3, 5]),
            'conf': conf, 'draws': [0, 1, rng.getrandbits(32)]}
    if case['kind'].startswith('CursorOneShot') and case['hint'] in CURSOR_KNOWN_HINTS and rng.random() < 0.9:
        # avoid switch for known finding C10-iterator-that-is-a-collection: most cursor cases use the other hints
        case['hint'] = rng.choice([h for h in HINTS if h not in CURSOR_KNOWN_HINTS])
    return case


def generate(rng, run, tier):
    case = _generate(rng, run, tier)
    # the calling convention of the decorated callable (drawn last: the rest of the case is as it was without it)
    case['sig'] = entry.gen_sig(rng)
    # the object may sit *inside* a rejected object, before the culprit: the explanation of the rejection then walks past it
    # (tuple[H, int] with (object, 'culprit'); Annotated[H, Is[always false]])
    case['wrap'] = rng.choice([None, None, None, 'tuple_bad', 'annot_fail', 'dict_value_bad'])
    return case


def _items(case):
    n = 0 if case['content'] == 'empty' else case['n']
    out = []
    for j in range(n):
        bad = case['content'] == 'bad' or (case['content'] == 'mixed' and j % 2 == 0)
        it = case['item']
        if it == 'list_int':
            out.append(['x'] if bad else [j])
        elif it == 'str':
            out.append(j if bad else 's%d' % j)
        else:
            out.append('b%d' % j if bad else j + 1)
    return out


def build(case):
    """Returns (object, checker(obj) -> problem string or None)."""
    k = case['kind']
    items = _items(case)
    hashable = [i for i in items if not isinstance(i, list)]
    if k in ('OneShot', 'OneShotExplode', 'SizedOneShot', 'SizedOneShotExplode', 'SizedReversibleOneShot', 'CursorOneShot', 'CursorOneShotExplode'):
        cls = spies.OneShot if k.startswith('OneShot') else spies.CursorOneShot if k.startswith('Cursor') else (
            spies.SizedReversibleOneShot if 'Reversible' in k else spies.SizedOneShot)
        x = cls(items, explode=k.endswith('Explode'))

        def chk(o):
            if o.log['__next__']:
                return 'one-shot stream advanced %d times' % o.log['__next__']
            o.explode = False
            rest = list(o._it)
            if rest != items or any(a is not b for a, b in zip(rest, items)):
                return 'one-shot stream lost items: %r left of %r' % (rest, items)
        return x, chk
    if k in ('generator', 'map', 'zip', 'enumerate', 'reversed'):
        src = list(items)
        if k == 'generator':
            x = (i for i in src)
            exp = list(src)
        elif k == 'map':
            x = map(lambda v: v, src)
            exp = list(src)
        elif k == 'zip':
            x = zip(src, src)
            exp = [(a, a) for a in src]
        elif k == 'enumerate':
            x = enumerate(src)
            exp = list(enumerate(src))
        else:
            x = reversed(src)
            exp = list(reversed(src))

        def chk(o):
            rest = list(o)
            if rest != exp:
                return '%s object consumed: %r left of %r' % (k, rest, exp)
        return x, chk
    if k == 'StringIO':
        x = io.StringIO(''.join('%s\n' % i for i in items))

        def chk(o):
            if o.tell() != 0:
                return 'file-like iterable advanced to position %d' % o.tell()
        return x, chk
    if k == 'ChainMapDD':
        # a ChainMap whose first map is an (empty) defaultdict and whose keys all live in its second map
        d = spies.SpyDefaultDict(int)
        x = collections.ChainMap(d, {'k%d' % j: it for j, it in enumerate(items)})
        x.log = d.log

        def chk(o):
            if collections.defaultdict.__len__(d) != 0:
                return 'the defaultdict inside the ChainMap grew from 0 to %d entries: %r' % (
                    collections.defaultdict.__len__(d), list(dict.keys(d)))
            return _mut(d)
        return x, chk
    if k == 'SpyDefaultDict':
        x = spies.SpyDefaultDict(int)
        for j, it in enumerate(items):
            collections.defaultdict.__setitem__(x, 'k%d' % j, it)
        x.log.clear()
        n0 = len(items)

        def chk(o):
            if collections.defaultdict.__len__(o) != n0:
                return 'defaultdict grew from %d to %d entries' % (n0, collections.defaultdict.__len__(o))
            return _mut(o)
        return x, chk
    cls = getattr(spies, k)
    if k in ('SpyDict', 'SpyMap'):
        pairs = [('k%d' % j, it) for j, it in enumerate(items)]
        if k == 'SpyMap':
            x = cls(pairs)
        else:
            x = cls()
            for a, b in pairs:
                dict.__setitem__(x, a, b)
            x.log.clear()
        snap = list(pairs)

        def chk(o):
            cur = list(dict.items(o)) if k == 'SpyDict' else list(o._d.items())
            if cur != snap:
                return 'mapping contents changed'
            return _mut(o)
        return x, chk
    if k in ('SpySet',):
        x = cls(hashable)
        snap = set(hashable)

        def chk(o):
            if set.__len__(o) != len(snap):
                return 'set contents changed'
            return _mut(o)
        return x, chk
    x = cls(items)
    snap = list(items)

    def chk(o):
        cur = list(o._items) if hasattr(o, '_items') else [o_ for o_ in type(o).__mro__[1].__iter__(o)]
        if len(cur) != len(snap) or any(a is not b for a, b in zip(cur, snap)):
            return 'container contents changed'
        return _mut(o)
    return x, chk


def _never(x):
    return False


def _mut(o):
    m = spies.mutations(o.log)
    if m:
        return 'mutating methods called: %r' % m
    return None


ONESHOT_KINDS = ('CursorOneShot', 'CursorOneShotExplode', 'OneShot', 'OneShotExplode', 'SizedOneShot', 'SizedOneShotExplode', 'SizedReversibleOneShot', 'generator', 'map', 'zip', 'enumerate', 'reversed', 'StringIO')


def execute(case):
    from sim import boot
    boot.SAMPLER.reset()
    probes = {k: 0 for k in PROBES}
    probes['cases'] = 1
    hint = HINTS[case['hint']](ITEMS[case['item']])
    wrap = case.get('wrap')
    if wrap == 'tuple_bad':
        hint = tuple[hint, int]
    elif wrap == 'annot_fail':
        from beartype.vale import Is
        hint = typing.Annotated[hint, Is[_never]]
    elif wrap == 'dict_value_bad':
        hint = dict[str, tuple[hint, int]]
    if wrap:
        probes['wrapped_before_culprit'] = 1
    if case['kind'] in ONESHOT_KINDS:
        probes['oneshot_objects'] = 1
    if case['kind'].endswith('Explode'):
        probes['exploding_streams'] = 1
    if case['kind'] in ('SpyDefaultDict', 'ChainMapDD'):
        probes['defaultdicts'] = 1
    if case['kind'].startswith('Spy'):
        probes['logging_containers'] = 1
    try:
        prep = entry.Prepared(hint, case['conf'], sig=case.get('sig', 'pos'))
    except Exception as e:      # noqa
        return _out(case, probes, ('unexpected_exception', 'preparing %r raised %s: %s' % (hint, type(e).__name__, str(e)[:200]), 'prepare'))
    viol = None
    for draw in case['draws']:
        for ep in prep.entry_points():
            x, chk = build(case)
            xin = x
            if wrap == 'tuple_bad':
                x = (xin, 'culprit')
            elif wrap == 'dict_value_bad':
                x = {'k': (xin, 'culprit')}
            out = prep.eval(ep, x, draw)
            verdict = entry.classify(out, prep.conf)
            if verdict == 'error':
                e = out['exc_obj']
                viol = ('unexpected_exception', '%s raised %s: %s' % (ep, type(e).__name__, str(e)[:300]),
                        'error:' + type(e).__name__ + ':' + case['kind'])
                break
            if verdict == 'reject':
                probes['rejections'] += 1
            if ep in ('param', 'return') and verdict == 'accept' and out['value_same'] is not True:
                viol = ('argument_not_identical', '%s: the wrapped callable did not get / return the identical object' % ep, 'identity')
                break
            problem = chk(xin)
            if problem:
                viol = ('consumed_or_mutated', '%s (verdict %s, draw %d) on %s under hint %r: %s' % (
                    ep, verdict, draw, case['kind'], hint, problem), 'consumed:' + case['kind'] + ':' + case['hint'])
                break
        if viol:
            break
    return _out(case, probes, viol)


def _out(case, probes, viol):
    out = {'digest': kernel.stable_hash([case['hint'], case['item'], case['kind'], case['content'], case['conf']]),
           'nontrivial': bool(probes['oneshot_objects'] or probes['defaultdicts'] or probes['rejections']), 'probes': probes,
           'stats': {'cases': 1}, 'violation': None}
    if viol:
        out['violation'] = {'kind': viol[0], 'detail': viol[1][:2000], 'key': viol[2]}
    return out


def shrink(case, violation):
    if case.get('sig', 'pos') != 'pos':
        yield dict(case, sig='pos')
    if case.get('wrap'):
        yield dict(case, wrap=None)
    if len(case['draws']) > 1:
        for d in case['draws']:
            yield dict(case, draws=[d])
    if case['conf'] != {'is_color': False}:
        yield dict(case, conf={'is_color': False})
    if case['n'] > 1:
        yield dict(case, n=1)
    if case['item'] != 'int':
        yield dict(case, item='int')


def _sig_cursor(case, v):
    """Known finding C10-iterator-that-is-a-collection: a one-shot iterator that also defines __len__ and __contains__ loses its
    first item (or, if advancing it raises, lets that exception escape) under the Iterable / Container / Collection hints."""
    if not (case.get('kind', '').startswith('CursorOneShot') and case.get('hint') in CURSOR_KNOWN_HINTS):
        return False
    d = v.get('detail', '')
    return ((v.get('kind') == 'consumed_or_mutated' and 'one-shot stream advanced 1 times' in d)
            or (v.get('kind') == 'unexpected_exception' and 'stream advanced by a type-check' in d))


def _sig_chainmap_dd(case, v):
    return case.get('kind') == 'ChainMapDD' and v.get('kind') == 'consumed_or_mutated' and 'defaultdict inside the ChainMap' in v.get('detail', '')


SIGNATURES = {'chainmap_over_defaultdict': _sig_chainmap_dd, 'iterator_that_is_a_collection': _sig_cursor}


def describe(case):
    return dict({k: case[k] for k in ('hint', 'item', 'kind', 'content', 'n', 'conf', 'draws')}, sig=case.get('sig', 'pos'), wrap=case.get('wrap'))
