"""C01 -- no false alarms: an object that satisfies a hint is always accepted.

Simulated nondeterminism: the sampler draw (enumerated over all residues modulo
the lcm of the sequence lengths involved, plus boundary and random 32-bit
values) and the cache state (cold after clear_caches / warm after an earlier
check of another object). Oracle: the reference semantics say *conforms* =>
every entry point accepts on every draw, consuming 0 or 1 draws, with no
exception of any kind.
"""
from sim import entry
from sim import hints as H
from sim import kernel
from props import c03

ID = 'C01'
BATCH = True
RULE = ('seeded (hint, object) pairs with the object conforming by construction (cross-checked by the independent '
        'reference semantics), depth <= 4, containers <= 6 items (<= 40 in thorough); every effective draw '
        '(residues mod lcm of sequence lengths, cap 120, plus 2^31, 2^32-1 and 4 random values) x six entry points; '
        'cache state perturbed (clear_caches / warm-up) in half of the runs; configurations from the swarm incl. '
        'is_pep484_tower, On, is_random=False, warning classes. Non-trivial = the object has a container level with '
        '>= 2 items or the cache was perturbed; distinct = distinct (hint, object, conf) digests')
INTERLEAVING_MEASURE = 'distinct (hint, object, configuration) triples; total draws evaluated in stats.draws'
COMPONENTS = c03.COMPONENTS
ASSUMPTIONS = ['the reference conforms() is a *sufficient* condition for membership (three-valued semantics, DESIGN.md section 4)',
               'one-shot iterators / generators are conforming by construction only (cannot be judged on the live object)']
PROBES = ['cases', 'draws_evaluated', 'cache_cleared', 'warmed', 'multi_item_containers', 'tower_runs']


def tiers(tier):
    if tier == 'thorough':
        return {'runs': 500000, 'wall': 900, 'det_runs': 20, 'chunks_per_job': 4}
    return {'runs': 12000, 'wall': 70, 'det_runs': 10}


def selfref_typearg(h, inside_gen=False):
    """A user generic subscripted by a union that mentions the generic's own type variable (ListBox[Optional[T]])."""
    k = h['k']
    if k == 'gen':
        return any(selfref_typearg(a, True) for a in h.get('a', []) if isinstance(a, dict))
    if inside_gen and k in ('union', 'opt', 'pipe'):
        if any(isinstance(a, dict) and a['k'] == 'tv' and a['n'] == 'T' for a in h['a']):
            return True
    return any(selfref_typearg(a, inside_gen) for a in h.get('a', []) or [] if isinstance(a, dict))


def _generate(rng, run, tier):
    maxlen = 6 if tier != 'thorough' or rng.random() < 0.8 else 40
    allow_selfref = rng.random() < 0.1      # avoid switch: known finding C01-generic-selfreferential-typearg
    if rng.random() < 0.004:
        # ... and a small fraction of runs drives straight at it
        inner = rng.choice([{'k': 'opt', 'a': [{'k': 'tv', 'n': 'T'}]},
                            {'k': 'union', 'a': [{'k': 'tv', 'n': 'T'}, {'k': 'cls', 'n': 'bytes'}]}])
        h = {'k': 'gen', 'n': 'ListBox', 'a': [inner]}
        o = {'o': 'listbox', 'i': [{'o': 'int', 'v': 1}, {'o': 'str', 'v': 'a'}]}
        return {'h': h, 'x': o, 'conf': entry.gen_conf(rng), 'draws': [0, 1], 'perturb': None, 'warm_obj': {'o': 'int', 'v': 1}}
    validator_focus = rng.random() < 0.06
    for _ in range(20):
        if validator_focus:
            # Annotated[Node, <validator expression over attribute chains>], bare or one level down: nested IsAttr on one
            # attribute name, compounds with operands before and after the nested one (generated code of validators)
            h = {'k': 'ann', 'a': [{'k': 'cls', 'n': 'Node'}], 'v': [H.gen_node_validator(rng, rng.choice([2, 3, 3, 4]))]}
            w = rng.random()
            if w < 0.2:
                h = {'k': 'seq', 'o': 'list', 'a': [h]}
            elif w < 0.3:
                h = {'k': 'opt', 'a': [h]}
        else:
            h = H.gen_hint(rng, rng.choice([1, 2, 3, 3, 4]))
        if selfref_typearg(h) and not allow_selfref:
            continue
        try:
            o = H.gen_conforming(rng, h, maxlen=maxlen)
            if maxlen > 6 and len(repr(o)) > 150000:
                # long containers nested in long containers: thousands of leaves, rebuilt for every draw and entry point
                o = H.gen_conforming(rng, h, maxlen=6)
            break
        except H.CannotGenerate:
            continue
    else:
        h, o = {'k': 'cls', 'n': 'int'}, {'o': 'int', 'v': 1}
    conf = entry.gen_conf(rng)
    draws = H.effective_draws(rng, H.seq_lengths(h, o))
    return {'h': h, 'x': o, 'conf': conf, 'draws': draws, 'perturb': rng.choice([None, None, 'clear', 'warm']),
            'warm_obj': H.gen_any_obj(rng, 1)}


def generate(rng, run, tier):
    case = _generate(rng, run, tier)
    # the calling convention of the decorated callable (drawn last: the rest of the case is as it was without it)
    case['sig'] = entry.gen_sig(rng)
    return case


def execute(case):
    import json
    from sim import boot
    boot.SAMPLER.reset()
    probes = {k: 0 for k in PROBES}
    probes['cases'] = 1
    hint = H.build_hint(case['h'])
    tower = bool(case['conf'].get('tower'))
    if tower:
        probes['tower_runs'] = 1
    # cross-check the generator's claim with the independent reference semantics
    blob = json.dumps(case['x'])
    judged = not any(k in blob for k in ('"iterator"', '"generator"', '"items"'))
    if judged:
        x0 = H.build_obj(case['x'])
        if not H.conforms(case['h'], x0, tower):
            return {'harness': 'generator/reference disagreement', 'digest': None, 'case_h': case['h'], 'case_x': case['x']}
    from beartype import door
    if case.get('perturb') == 'clear':
        from beartype._util.cache.utilcacheclear import clear_caches
        door.is_bearable(H.build_obj(case['warm_obj']), hint)
        clear_caches()
        probes['cache_cleared'] = 1
    try:
        prep = entry.Prepared(hint, case['conf'], sig=case.get('sig', 'pos'))
    except Exception as e:      # noqa
        return c03._out(case, probes, ('unexpected_exception', 'preparing checkers for %r raised %s: %s' % (
            hint, type(e).__name__, str(e)[:300]), 'prepare:' + type(e).__name__))
    if case.get('perturb') == 'warm':
        for ep in prep.entry_points():
            prep.eval(ep, H.build_obj(case['warm_obj']), 0)
        probes['warmed'] = 1
    if any(n >= 2 for n in H.seq_lengths(case['h'], case['x'])):
        probes['multi_item_containers'] = 1
    viol = None
    for draw in case['draws']:
        for ep in prep.entry_points():
            x = H.build_obj(case['x'])
            out = prep.eval(ep, x, draw)
            probes['draws_evaluated'] += 1
            c = entry.classify(out, prep.conf)
            if out['draws'] > 1:
                viol = ('extra_draws', '%s consumed %d draws' % (ep, out['draws']), 'extra_draws')
            elif c == 'reject':
                viol = ('false_alarm', 'draw %d: %s rejected a conforming object: %s' % (
                    draw, ep, str(out['exc_obj'] or out['warns'])[:400]), 'false_alarm:' + ep + ':' + c03._family(case['h']))
            elif c == 'error':
                e = out['exc_obj']
                viol = ('unexpected_exception', 'draw %d: %s raised %s: %s' % (draw, ep, type(e).__name__, str(e)[:400]),
                        'error:' + type(e).__name__ + ':' + c03._family(case['h']))
            if viol:
                break
        if viol:
            break
    return c03._out(case, probes, viol, nontrivial=bool(probes['multi_item_containers'] or case.get('perturb')))


shrink = c03.shrink


def _sig_selfref(case, v):
    return v.get('kind') == 'false_alarm' and selfref_typearg(case.get('h', {'k': 'x'}))


SIGNATURES = {'generic_selfreferential_typearg': _sig_selfref}


def describe(case):
    return {'sig': case.get('sig', 'pos'), 'hint': case['h'], 'object': case['x'], 'conf': case['conf'], 'n_draws': len(case['draws']), 'perturb': case.get('perturb')}
