"""C16 -- hooked and unhooked bytecode caches never mix; cached bytecode is never stale.

System under simulation: a scratch package tree on disk and a *history of
interpreter runs* over it. Each run has its own hook configuration (off, default,
claw_is_pep526 on/off, each decorator placement, a warning violation type);
between runs the sources are edited with a simulated, strictly increasing mtime;
within a run two or three threads may import disjoint modules (hooked and
unhooked ones concurrently) under the baton scheduler, with pre-emption points in
beartype's loader *and* in importlib's SourceLoader.get_code / cache_from_source;
a run may crash (abort) at a seeded trace step of an import.

An "interpreter run" is emulated in-process: beartype's state is restored to
pristine, the scratch package is evicted from sys.modules and the import caches
are invalidated; only the files survive. (Violations are re-confirmed with every
interpreter run executed in its own forked child of a pristine process.)

Oracle: (1) every module's behavioural fingerprint equals that of the same run on
a copy of the tree with an *empty* cache; (2) marker invariant: transformed code
only in files carrying beartype's marker, untransformed only in unmarked files;
(3) after a crashed run the next run still satisfies (1) and (2).
"""
import importlib
import marshal
import os
import shutil
import sys

from sim import kernel, ops

ID = 'C16'
BATCH = True
NEEDS_SCRATCH = True
RULE = ('seeded histories of 2-5 interpreter runs over a generated 2-4 module package tree; per run a hook configuration '
        '(off | beartype_package with one of 7 configurations), optional source edits before it (simulated mtime +1..+5 s, '
        'size changing or not), optional 2-3 importing threads under a seeded line-level schedule, optional crash at a seeded '
        'trace step. Non-trivial = at least two runs with different configuration, or an edit, a crash or a pre-emption; '
        'distinct = distinct (history, schedule) digests')
INTERLEAVING_MEASURE = 'distinct digests over (history, per-run (task,file,line) event sequence)'
COMPONENTS = {
    'real': ['beartype.claw path hook, loader, AST transformer (from /repo working tree)', 'CPython import system and its '
             'bytecode cache (SourceLoader.get_code, atomic pyc writes)', 'the file system (scratch directory under /dev/shm)'],
    'stub': ['interpreter boundary = in-place restoration of beartype state + eviction of the scratch package (violations '
             're-confirmed with one forked child per interpreter run)', 'thread scheduling (baton + settrace)', 'source mtime = '
             'simulated integer clock (os.utime)', 'crash = abort of the importing task at a seeded step (files survive as written)'],
}
ASSUMPTIONS = ['two threads never import the same module (import-system module locks stay real and are avoided, not modelled)',
               'torn or bit-flipped pyc contents and same-mtime-same-size edits are not injected (CPython itself does not survive them)',
               'concurrency between *processes* on one cache directory is not simulated']
PROBES = ['second_scope_reimports', 'no_write_runs', 'reconf_between_runs', 'edits', 'crashes', 'threaded_runs', 'preempted_runs', 'cache_hits', 'hooked_and_unhooked_concurrently', 'failed_imports',
          'pyc_files_checked', 'scoped_runs', 'reexec_after_hook_off']

PKG = 'c16pkg'

CONFS = {
    'default': None,
    'nopep526': {'claw_is_pep526': False},
    'first': {'decor_func': 'FIRST', 'decor_type': 'FIRST'},
    'last': {'decor_func': 'LAST', 'decor_type': 'LAST'},
    'hostile': {'decor_func': 'LAST_BEFORE_DECOR_HOSTILE'},
    'func_first': {'decor_func': 'FIRST'},
    'type_first': {'decor_type': 'FIRST'},
    'func_last': {'decor_func': 'LAST'},
    'type_hostile': {'decor_type': 'LAST_BEFORE_DECOR_HOSTILE'},
    'nopep526_type_first': {'claw_is_pep526': False, 'decor_type': 'FIRST'},
    'warn': {'vt': 'warn'},
    'exc': {'vt': 'valueerror'},
    # settings that change what the transformed module does without changing the shape of the transformation
    'o0': {'strategy': 'O0'},
    'on': {'strategy': 'On'},
    'tower': {'tower': True},
    'o0_nopep526': {'strategy': 'O0', 'claw_is_pep526': False},
    'o0_first': {'strategy': 'O0', 'decor_func': 'FIRST', 'decor_type': 'FIRST'},
}
# which configurations produce the same AST shape (cached bytecode may legitimately be shared)
def ast_shape(cname):
    kw = CONFS[cname] or {}
    return (kw.get('claw_is_pep526', True), kw.get('decor_func', 'LAST_BEFORE_DECOR_HOSTILE'), kw.get('decor_type', 'LAST'))


def tiers(tier):
    if tier == 'thorough':
        return {'runs': 60000, 'wall': 900, 'det_runs': 12, 'chunks_per_job': 4}
    return {'runs': 3000, 'wall': 70, 'det_runs': 8}


# ------------------------------------------------------------------ module source generation
def module_source(spec):
    """A module whose observable behaviour depends on whether / how it was transformed."""
    v = spec['v']          # version counter: edits change it
    pad = spec.get('pad', '')
    imp = spec.get('imports')
    lines = [
        '"""generated module %s v%d"""' % (spec['name'], v),
        'from __future__ import annotations' if spec.get('future') else '',
        # a nested import on the importing thread: hooked -> unhooked, unhooked -> hooked, hooked -> hooked
        ('import %s.%s.%s as _dep' % (PKG, imp[0], imp[1])) if imp else '',
        'ORDER = []',
        'RESULT = {"version": %d}' % v,
        'def rec(fn):',
        '    ORDER.append(bool(getattr(fn, "__wrapped__", None)))',
        '    return fn',
        'def crec(cls):',
        '    ORDER.append(("cls", bool(getattr(cls.__dict__.get("m"), "__wrapped__", None))))',
        '    return cls',
        '@rec',
        'def g(a: int) -> int:',
        '    return a%s' % (' + 0' * (v % 3)),
        'def f(a: %s) -> %s:' % (spec['ptype'], spec['ptype']),
        '    return a',
        'class K:',
        '    def m(self, a: str) -> str:',
        '        return a',
        '    @rec',
        '    def n(self, a: int = 0) -> int:',
        '        return a',
        '@crec',
        'class K2:',
        '    def m(self, a: str) -> str:',
        '        return a',
        'def _probe():',
        '    try:',
        '        y: int = "oops"',
        '        RESULT["pep526"] = "unchecked"',
        '    except Exception as e:',
        '        RESULT["pep526"] = type(e).__name__',
        '_probe()',
        # a module that does not compile (until an edit repairs it): importing it raises inside the loader's get_code()
        'def (:' if spec.get('broken') else '',
        '# %s' % pad,
    ]
    return '\n'.join(l for l in lines if l != '') + '\n'


def fingerprint(mod):
    """Behavioural fingerprint of an imported module."""
    import warnings

    def call(fn, *a):
        with warnings.catch_warnings(record=True) as w:
            warnings.simplefilter('always')
            try:
                fn(*a)
                r = 'ok'
            except Exception as e:      # noqa
                r = type(e).__name__
        ws = sorted(set(x.category.__name__ for x in w))
        return r if not ws else r + '+' + ','.join(ws)
    return {
        'version': mod.RESULT.get('version'),
        'pep526': mod.RESULT.get('pep526'),
        'order': list(mod.ORDER),
        'g_bad': call(mod.g, 'x'),
        'f_bad': call(mod.f, object()),
        'f_int': call(mod.f, 1),
        'm_bad': call(mod.K().m, 5),
        'n_bad': call(mod.K().n, 'x'),
        'k2_bad': call(mod.K2().m, 5),
    }


# ------------------------------------------------------------------ generation
def generate(rng, run, tier):
    nmods = rng.randint(2, 4)
    mods = []
    for i in range(nmods):
        mods.append({'name': 'm%d' % i, 'sub': rng.choice(['h', 'h', 'u']), 'v': 0, 'future': rng.random() < 0.3,
                     'ptype': rng.choice(['int', 'str', 'list[int]', 'float']), 'pad': ''})
    if not any(m['sub'] == 'h' for m in mods):
        mods[0]['sub'] = 'h'
    for m in mods:
        if rng.random() < 0.1:
            m['broken'] = True
    for i in range(1, nmods):
        if rng.random() < 0.35:
            j = rng.randrange(i)        # only towards lower indices: no cycles
            mods[i]['imports'] = [mods[j]['sub'], mods[j]['name']]
    nruns = rng.randint(2, 5)
    runs = []
    same_shape_only = False     # (was an avoid switch for C16-marker-ignores-configuration, repaired since)
    first_conf = rng.choice(list(CONFS))
    for r in range(nruns):
        hook = rng.choice(['off'] + list(CONFS) * 2)
        if same_shape_only and hook != 'off' and ast_shape(hook) != ast_shape(first_conf):
            hook = rng.choice([c for c in CONFS if ast_shape(c) == ast_shape(first_conf)])
        edits = []
        if r > 0 and rng.random() < 0.4:
            for _ in range(rng.randint(1, 2)):
                edits.append({'mod': rng.randrange(nmods), 'dt': rng.randint(1, 5), 'same_size': rng.random() < 0.4})
        threads = None
        if rng.random() < 0.45:
            order = list(range(nmods))
            rng.shuffle(order)
            nt = min(nmods, rng.choice([2, 2, 3]))
            threads = [order[i::nt] for i in range(nt)]
            if any(m.get('imports') for m in mods):
                # two threads never import the same module (import-system module locks stay real): a module and everything
                # it imports go to one thread
                comp = list(range(nmods))
                for i, m in enumerate(mods):
                    if m.get('imports'):
                        j = [k for k, mm in enumerate(mods) if mm['name'] == m['imports'][1]][0]
                        a, b = comp[i], comp[j]
                        comp = [a if c == b else c for c in comp]
                groups = {}
                for i in order:
                    groups.setdefault(comp[i], []).append(i)
                gl = list(groups.values())
                threads = [sum(gl[i::nt], []) for i in range(min(nt, len(gl)))]
                if len(threads) < 2:
                    threads = None
        run_spec = {'hook': hook, 'edits': edits, 'threads': threads, 'sched_seed': rng.getrandbits(48),
                    'p': rng.choice([0.02, 0.05, 0.1, 0.3]), 'crash_at': None,
                    # avoid switch: known finding C16-cache-from-source-race (hooked + unhooked imported concurrently)
                    'import_order': rng.sample(range(nmods), nmods)}
        if rng.random() < 0.12:
            run_spec['crash_at'] = rng.randint(5, 1500)
        if rng.random() < 0.15:
            run_spec['no_write'] = True
        if hook != 'off' and threads is None and rng.random() < 0.3:
            # the hook is switched on and off again *inside* the run: 'with beartyping(conf)' around the first k imports,
            # the others imported after the block; some modules of the block re-executed afterwards through the spec
            # (and loader object) they were first loaded with - what LazyLoader, runpy-style runners and
            # 'module_from_spec + exec_module' recipes do
            k = rng.randint(1, nmods)
            run_spec['scoped'] = {'k': k, 'reexec': sorted(rng.sample(range(nmods), rng.randint(0, min(2, nmods)))),
                                  'drop_cache': rng.random() < 0.7}
            if rng.random() < 0.4:
                # a second beartyping() block of the same interpreter run, under another configuration, re-importing some of
                # the modules (evicted from sys.modules first): each must then follow the second configuration
                run_spec['scoped']['second'] = {'hook': rng.choice([c for c in CONFS if c != hook]),
                                                'mods': sorted(rng.sample(range(nmods), rng.randint(1, nmods)))}
        runs.append(run_spec)
    avoid_race = False          # (was an avoid switch for C16-cache-from-source-race, repaired since)
    if avoid_race:
        # known finding C16-cache-from-source-race: while a hook is on, no thread imports a hooked module
        # concurrently with anything else (hooked modules are imported after the threads, sequentially)
        for rs in runs:
            if rs['threads'] and rs['hook'] != 'off':
                us = [i for i, m in enumerate(mods) if m['sub'] == 'u']
                rest = [i for i in range(nmods) if i not in us]
                if len(us) >= 2:
                    rs['threads'] = [us[0::2], us[1::2]]
                    rs['after'] = rest
                else:
                    rs['threads'] = None
    return {'mods': mods, 'runs': runs, 'avoid_race': avoid_race}


# ------------------------------------------------------------------ tree handling
def _write_module(root, m, clock):
    d = os.path.join(root, PKG, m['sub'])
    path = os.path.join(d, m['name'] + '.py')
    with open(path, 'w') as f:
        f.write(module_source(m))
    os.utime(path, (clock, clock))
    return path


def _make_tree(root, mods, clock):
    for sub in ('h', 'u'):
        d = os.path.join(root, PKG, sub)
        os.makedirs(d, exist_ok=True)
        for p in (os.path.join(root, PKG, '__init__.py'), os.path.join(d, '__init__.py')):
            if not os.path.exists(p):
                with open(p, 'w') as f:
                    f.write('')
                os.utime(p, (clock, clock))
    for m in mods:
        _write_module(root, m, clock)


def _copy_sources(src_root, dst_root):
    """Copy sources (with their mtimes) but no __pycache__."""
    if os.path.exists(dst_root):
        shutil.rmtree(dst_root)
    shutil.copytree(src_root, dst_root, ignore=shutil.ignore_patterns('__pycache__'), copy_function=shutil.copy2)


def _pyc_report(root):
    """{relative pyc path: transformed?} by looking for beartype's injected names inside the code objects."""
    out = {}
    for d, _, files in os.walk(os.path.join(root, PKG)):
        if not d.endswith('__pycache__'):
            continue
        for fn in files:
            p = os.path.join(d, fn)
            if not fn.endswith('.pyc'):
                out[os.path.relpath(p, root)] = 'tmp'
                continue
            try:
                with open(p, 'rb') as f:
                    data = f.read()
                code = marshal.loads(data[16:])
                out[os.path.relpath(p, root)] = _mentions_beartype(code)
            except Exception as e:      # noqa
                out[os.path.relpath(p, root)] = 'unreadable:' + type(e).__name__
    return out


def _mentions_beartype(code):
    names = set(code.co_names) | set(code.co_varnames)
    for n in names:
        if 'beartype' in n:
            return True
    for c in code.co_consts:
        if hasattr(c, 'co_names') and _mentions_beartype(c):
            return True
        if isinstance(c, str) and 'beartype' in c and 'generated module' not in c:
            return True
        if isinstance(c, tuple) and any(isinstance(x, str) and 'beartype' in x for x in c):
            return True
    return False


# ------------------------------------------------------------------ one interpreter run
class SimCrash(BaseException):
    pass


def _evict():
    for name in list(sys.modules):
        if name == PKG or name.startswith(PKG + '.'):
            del sys.modules[name]
    sys.path_importer_cache.clear()
    importlib.invalidate_caches()


def interpreter_run(root, mods, rs, traced=True):
    """Import every module of the tree at ``root`` under the run's hook configuration; returns observations."""
    import warnings
    from beartype import claw
    from sim import sched, state
    state.restore()
    _evict()
    old_path = list(sys.path)
    old_dwb = sys.dont_write_bytecode
    sys.path.insert(0, root)
    # (a run may have bytecode writing switched off - python -B, PYTHONDONTWRITEBYTECODE -: it still *reads* caches)
    sys.dont_write_bytecode = bool(rs.get('no_write'))
    obs = {'mods': {}, 'crashed': False}
    steps = 0
    digest = 0
    preempt = 0
    try:
        with warnings.catch_warnings():
            warnings.simplefilter('ignore')
            scoped = rs.get('scoped') if rs['hook'] != 'off' else None
            if scoped:
                return _scoped_run(root, mods, rs, scoped, obs)
            if rs['hook'] != 'off':
                claw.beartype_package(PKG + '.h', conf=ops.build_conf(CONFS[rs['hook']]))
            # packages first, sequentially (module locks of shared parents stay out of the simulation)
            importlib.import_module(PKG + '.h')
            importlib.import_module(PKG + '.u')

            loaded = {}

            def imp(i):
                m = mods[i]
                full = '%s.%s.%s' % (PKG, m['sub'], m['name'])
                try:
                    loaded[m['name']] = importlib.import_module(full)
                except SimCrash:
                    raise
                except Exception as e:      # noqa
                    obs['mods'][m['name']] = {'import_error': type(e).__name__ + ':' + str(e)[:80]}

            if rs.get('threads') and traced:
                def mk(lst):
                    def body():
                        for i in lst:
                            imp(i)
                    return body

                def extra(fn, name):
                    return fn == '<frozen importlib._bootstrap_external>' and name in (
                        'get_code', '_cache_bytecode', 'cache_from_source', 'set_data', '_write_atomic',
                        'source_to_code', 'get_data', 'path_stats', '_validate_timestamp_pyc', '_compile_bytecode')
                sw = rs.get('switches') if rs.get('switches') is not None else rs.get('switches_recorded')
                strat = {'kind': 'uniform', 'p': rs.get('p', 0.1)} if sw is None else {'kind': 'replay', 'switches': sw}
                s = sched.Scheduler(strat, kernel.stream(rs['sched_seed'], 'sched'), step_cap=400000,
                                    preempt_in_import=True, extra_interest=extra)
                if rs.get('crash_at'):
                    def on_step(step, _at=rs['crash_at']):
                        if step == _at:
                            raise SimCrash()
                    s.on_step = on_step
                tasks = s.run([mk(l) for l in rs['threads']])
                steps, digest, preempt = s.step, s.digest, s.stats['preempt']
                obs['switches'] = [list(x) for x in s.switches]
                for t in tasks:
                    if isinstance(t.error, SimCrash):
                        obs['crashed'] = True
                    elif t.error is not None:
                        obs['task_error'] = repr(t.error)[:200]
                if s.deadlock is not None:
                    obs['deadlock'] = True
                for i in rs.get('after') or []:
                    imp(i)
            else:
                for i in rs.get('import_order') or range(len(mods)):
                    if i < len(mods):
                        imp(i)
            # fingerprints are taken sequentially, after the importing threads are done
            for name, mod in loaded.items():
                obs['mods'][name] = fingerprint(mod)
    finally:
        sys.path[:] = old_path
        sys.dont_write_bytecode = old_dwb
        _evict()
    if 'steps' not in obs:
        obs['steps'] = steps
        obs['digest'] = digest
        obs['preempt'] = preempt
    return obs


def _scoped_run(root, mods, rs, scoped, obs):
    """Hook on for the first k imports only (with beartyping(...)); afterwards unhooked imports and re-executions."""
    import importlib.util
    from beartype import claw
    loaded = {}

    def imp(i):
        m = mods[i]
        full = '%s.%s.%s' % (PKG, m['sub'], m['name'])
        try:
            loaded[m['name']] = importlib.import_module(full)
        except Exception as e:      # noqa
            obs['mods'][m['name']] = {'import_error': type(e).__name__ + ':' + str(e)[:80]}
    order = [i for i in (rs.get('import_order') or range(len(mods))) if i < len(mods)]
    k = scoped['k']
    with claw.beartyping(conf=ops.build_conf(CONFS[rs['hook']])):
        importlib.import_module(PKG + '.h')
        importlib.import_module(PKG + '.u')
        for i in order[:k]:
            imp(i)
    for i in order[k:]:
        imp(i)
    for i in scoped.get('reexec') or []:
        if i in order[:k] and mods[i]['name'] in loaded:
            name = mods[i]['name']
            spec = loaded[name].__spec__
            if scoped.get('drop_cache'):
                # the unmarked cache file may legitimately not exist yet; when it does, drop it so that the loader compiles
                try:
                    os.unlink(importlib.util.cache_from_source(spec.origin))
                except OSError:
                    pass
            try:
                m2 = importlib.util.module_from_spec(spec)
                spec.loader.exec_module(m2)
                loaded[name + ':reexec'] = m2
            except Exception as e:      # noqa
                obs['mods'][name + ':reexec'] = {'import_error': type(e).__name__ + ':' + str(e)[:80]}
    sec = scoped.get('second')
    if sec:
        with claw.beartyping(conf=ops.build_conf(CONFS[sec['hook']])):
            for i in sec['mods']:
                if i >= len(mods) or mods[i]['name'] not in loaded:
                    continue
                m = mods[i]
                full = '%s.%s.%s' % (PKG, m['sub'], m['name'])
                sys.modules.pop(full, None)
                try:
                    loaded[m['name'] + ':scope2'] = importlib.import_module(full)
                except Exception as e:      # noqa
                    obs['mods'][m['name'] + ':scope2'] = {'import_error': type(e).__name__ + ':' + str(e)[:80]}
    for name, mod in loaded.items():
        obs['mods'][name] = fingerprint(mod)
    obs['steps'] = obs['digest'] = obs['preempt'] = 0
    return obs


def _apply_edits(root, mods, rs, clock):
    for e in rs['edits']:
        if e['mod'] >= len(mods):
            continue
        m = mods[e['mod']]
        old_size = len(module_source(m))
        m['v'] += 1
        m['broken'] = False         # (an edit repairs a module that did not compile)
        if e['same_size']:
            # keep the byte size identical to the previous version when possible (only the mtime tells)
            m['pad'] = ''
            need = old_size - len(module_source(m))
            m['pad'] = 'x' * need if need >= 0 else ''
        else:
            m['pad'] = m.get('pad', '') + 'x' * (1 + m['v'])
        clock += e['dt']
        _write_module(root, m, clock)
    return clock


def execute(case):
    """All interpreter runs of the history in this process (state restored between them)."""
    return _execute(case, lambda fn, arg: fn(arg))


def _run_in_tree(arg):
    root, mods, rs, traced = arg
    return interpreter_run(root, mods, rs, traced)


def _execute(case, runner):
    import copy
    scratch = case['scratch']
    root = os.path.join(scratch, 'tree')
    ref = os.path.join(scratch, 'ref')
    os.makedirs(root, exist_ok=True)
    mods = copy.deepcopy(case['mods'])
    clock = 1_700_000_000
    _make_tree(root, mods, clock)
    probes = {k: 0 for k in PROBES}
    viol = None
    digests = []
    total_steps = 0
    prev_hook = None
    crashed_prev = False
    poisoned = False
    inconclusive = False
    sim_span = 0
    try:
        for ri, rs in enumerate(case['runs']):
            if rs['edits']:
                c2 = _apply_edits(root, mods, rs, clock)
                sim_span += c2 - clock
                clock = c2
                probes['edits'] += len(rs['edits'])
            if prev_hook is not None and prev_hook != rs['hook']:
                probes['reconf_between_runs'] += 1
            prev_hook = rs['hook']
            pyc_before = set(_pyc_report(root))
            # reference: same sources, same mtimes, empty cache, no threads, no crash
            _copy_sources(root, ref)
            ref_obs = runner(_run_in_tree, (ref, mods, dict(rs, threads=None, crash_at=None), False))
            obs = runner(_run_in_tree, (root, mods, rs, True))
            if isinstance(obs, dict) and obs.get('harness'):
                return obs
            total_steps += obs.get('steps', 0)
            digests.append([rs['hook'], obs.get('digest', 0)])
            if rs.get('threads'):
                probes['threaded_runs'] += 1
                if obs.get('preempt'):
                    probes['preempted_runs'] += 1
                subs = [set(mods[i]['sub'] for i in t if i < len(mods)) for t in rs['threads']]
                allsubs = set().union(*subs) if subs else set()
                if len(allsubs) > 1 and rs['hook'] != 'off':
                    probes['hooked_and_unhooked_concurrently'] += 1
            if obs.get('crashed'):
                probes['crashes'] += 1
            if rs.get('no_write'):
                probes['no_write_runs'] += 1
            probes['failed_imports'] += sum(1 for v in obs.get('mods', {}).values() if isinstance(v, dict) and 'import_error' in v)
            if rs.get('scoped') and rs['hook'] != 'off':
                probes['scoped_runs'] += 1
                probes['reexec_after_hook_off'] += sum(1 for n in obs.get('mods', {}) if n.endswith(':reexec'))
            if pyc_before:
                probes['cache_hits'] += 1
            rec_switches = obs.get('switches')
            if rec_switches is not None:
                rs['switches_recorded'] = rec_switches
            if obs.get('deadlock'):
                poisoned = True
            if obs.get('deadlock') and rs.get('crash_at'):
                inconclusive = True      # the injected crash left the other importer waiting: nothing to conclude
                break
            if obs.get('deadlock') or obs.get('task_error'):
                viol = ('import_failed_under_threads', 'run %d: %r' % (ri, obs.get('task_error') or 'deadlock'), 'threads')
                break
            # (1) fingerprints vs empty-cache reference (modules that the crash prevented are skipped)
            for name, fp in obs['mods'].items():
                want = ref_obs['mods'].get(name)
                if fp != want:
                    viol = ('stale_or_mixed_cache',
                            'run %d (hook=%s, previous hooks=%r): module %s behaves %r, on an empty cache %r' % (
                                ri, rs['hook'], [r['hook'] for r in case['runs'][:ri]], name, fp, want),
                            _why(case, ri, name, fp, want, obs))
                    break
            if viol:
                break
            sec = (rs.get('scoped') or {}).get('second') if rs['hook'] != 'off' else None
            if sec and any(n.endswith(':scope2') for n in obs.get('mods', {})):
                # what a module re-imported inside the second block does must be what it does in an interpreter run of its own
                # whose only block has the second configuration (the same-procedure twin above shares in-process state with the
                # run it mirrors and cannot tell)
                probes['second_scope_reimports'] += 1
                ref2 = os.path.join(scratch, 'ref2')
                _copy_sources(root, ref2)
                rs2 = {'hook': sec['hook'], 'edits': [], 'threads': None, 'crash_at': None, 'sched_seed': 0, 'p': 0.0,
                       'import_order': rs.get('import_order'), 'scoped': {'k': len(mods), 'reexec': [], 'drop_cache': False}}
                ref2_obs = runner(_run_in_tree, (ref2, mods, rs2, False))
                shutil.rmtree(ref2, ignore_errors=True)
                for name, fp in sorted(obs['mods'].items()):
                    if not name.endswith(':scope2') or (isinstance(fp, dict) and 'import_error' in fp):
                        continue
                    want = ref2_obs.get('mods', {}).get(name[:-len(':scope2')])
                    if want is not None and fp != want:
                        viol = ('second_scope_follows_first', 'run %d: module %s re-imported inside a second beartyping() block (hook=%s) after a '
                                'first block (hook=%s) behaves %r; imported under that configuration in a run of its own: %r' % (
                                    ri, name, sec['hook'], rs['hook'], fp, want), 'scope2')
                        break
            if viol:
                break
            # (2) marker invariant
            rep = _pyc_report(root)
            probes['pyc_files_checked'] += len(rep)
            for p, transformed in sorted(rep.items()):
                if transformed == 'tmp' or os.path.basename(p).startswith('__init__'):
                    continue        # (an empty __init__ has nothing to transform)
                marked = 'beartype' in os.path.basename(p)
                if isinstance(transformed, bool) and transformed != marked:
                    viol = ('marker_mismatch', 'run %d (hook=%s): %s holds %s bytecode' % (
                        ri, rs['hook'], p, 'transformed' if transformed else 'untransformed'),
                        'marker:' + ('race_possible' if _race_possible(case, ri) else 'sequential') + (':after_crash' if crashed_prev else ''))
                    break
            if viol:
                break
            crashed_prev = bool(obs.get('crashed'))
    finally:
        shutil.rmtree(scratch, ignore_errors=True)
    nontrivial = bool(probes['reconf_between_runs'] or probes['edits'] or probes['crashes'] or probes['preempted_runs'])
    out = {'digest': kernel.stable_hash([case['mods'], [(r['hook'], r['edits'], r['threads'], r['crash_at'], r.get('scoped')) for r in case['runs']], digests]),
           'nontrivial': nontrivial, 'probes': probes, 'steps': total_steps, 'sim_time': float(sim_span),
           'stats': {'reconf': probes['reconf_between_runs'], 'edit': probes['edits'], 'crash': probes['crashes'],
                     'preempted_runs': probes['preempted_runs']},
           'record': {'runs': case['runs']}, 'violation': None, 'poisoned': poisoned, 'inconclusive': inconclusive}
    if viol:
        out['violation'] = {'kind': viol[0], 'detail': viol[1][:2500], 'key': viol[2]}
    return out


def _race_possible(case, ri):
    """Did any run so far import a hooked module from a thread while another thread was importing?"""
    for r in case['runs'][:ri + 1]:
        if r.get('threads') and r['hook'] != 'off' and len([t for t in r['threads'] if t]) > 1:
            if any(case['mods'][i]['sub'] == 'h' for t in r['threads'] for i in t if i < len(case['mods'])):
                return True
    return False


def _why(case, ri, name, fp, want, obs):
    rs = case['runs'][ri]
    tags = []
    if _race_possible(case, ri):
        tags.append('race_possible')
    shapes = set(ast_shape(r['hook']) for r in case['runs'][:ri + 1] if r['hook'] != 'off')
    if len(shapes) > 1:
        tags.append('config_changed_ast_shape')
    if rs.get('threads'):
        tags.append('threads')
    if isinstance(fp, dict) and isinstance(want, dict) and fp.get('version') != want.get('version'):
        tags.append('stale_source')
    return '+'.join(tags) or 'other'


def run_case(case, spawn):
    if spawn is kernel.spawn:
        # pristine confirmation: every interpreter run in its own forked child
        def runner(fn, arg):
            return spawn(fn, arg)
        return _execute(case, runner)
    return spawn(execute, case)


# ------------------------------------------------------------------ shrinking
def shrink(case, violation):
    runs = case['runs']
    if len(runs) > 1:
        for cand in kernel.drop_chunks(runs, 1):
            c = dict(case)
            c['runs'] = cand
            yield c
    for i, r in enumerate(runs):
        for key, val in (('threads', None), ('crash_at', None), ('edits', []), ('scoped', None)):
            if r.get(key):
                r2 = dict(r)
                r2[key] = val
                c = dict(case)
                c['runs'] = runs[:i] + [r2] + runs[i + 1:]
                yield c
    if len(case['mods']) > 1:
        for j in range(len(case['mods'])):
            c = dict(case)
            gone = case['mods'][j]['name']
            c['mods'] = [({k: v for k, v in m.items() if k != 'imports'} if (m.get('imports') or [None, None])[1] == gone else m)
                         for m in case['mods'][:j] + case['mods'][j + 1:]]
            c['runs'] = [dict(r, threads=None, edits=[e for e in r['edits'] if e['mod'] < len(c['mods'])],
                              import_order=None) for r in runs]
            yield c


def _sig_marker_conf(case, v):
    return v.get('kind') == 'stale_or_mixed_cache' and 'config_changed_ast_shape' in v.get('key', '') \
        and 'stale_source' not in v.get('key', '')


def _sig_cfs_race(case, v):
    if 'race_possible' not in v.get('key', ''):
        return False
    return v.get('kind') == 'marker_mismatch' or (v.get('kind') == 'stale_or_mixed_cache' and 'stale_source' not in v.get('key', ''))


SIGNATURES = {'marker_ignores_configuration': _sig_marker_conf, 'cache_from_source_race': _sig_cfs_race}


def describe(case):
    return {'mods': [(m['name'], m['sub'], m['ptype'], m.get('imports')) for m in case['mods']],
            'runs': [{k: v for k, v in r.items() if k in ('hook', 'edits', 'threads', 'crash_at', 'scoped')} for r in case['runs']]}
