"""C14 -- answers do not depend on what was asked before (memoisation is invisible).

A seeded *history* of public-API operations (class creation incl. distinct
classes sharing one qualified name, class deletion, forced GC, hint creation incl.
hash-equal look-alikes, cache clears -- direct and via redefinition of a
decorated class --, failing operations such as unresolved forward references and
raising validators) precedes each query (is_bearable, die_if_unbearable,
is_subhint, TypeHint comparisons, decorated calls). Oracle: the *fresh answer* --
beartype's state is put back to pristine and only the operations that construct
the query's arguments are replayed, then the query, under the same sampler draw.
"""
import gc

from sim import hints as H
from sim import kernel, ops

ID = 'C14'
BATCH = True
RULE = ('seeded histories of 4-25 operations (newcls with names from a pool of 3, delcls, gc, mkhint over class slots '
        'incl. look-alikes, clear_caches, redefinition of a decorated class, failing queries, forward reference '
        'define-later) with <= 6 queries each; every query is answered again after state restoration with only its '
        'argument-constructing operations replayed (same draw). Non-trivial = the history contains a fault (same-named '
        'class, delcls+gc, cache clear, failing operation) before a query; distinct = distinct histories')
INTERLEAVING_MEASURE = 'distinct operation histories'
COMPONENTS = {
    'real': ['beartype public API, all caches, forward-reference proxies (from /repo working tree)', 'CPython gc (explicit collections only)'],
    'stub': ['sampler draw (fixed per query)', 'fresh interpreter = in-place restoration of beartype state (violations re-confirmed in a pristine fork)'],
}
ASSUMPTIONS = ['gc is disabled; collections happen only as generated operations',
               'answers are compared after normalisation: bool / exception class family / comparison result']
PROBES = ['door_string_queries', 'same_named_classes', 'gc_after_del', 'cache_clears', 'failing_ops', 'lookalike_hints', 'fwdref_define_later',
          'queries', 'repeat_queries']

CLS_NAMES = ['K', 'L', 'M']


def tiers(tier):
    if tier == 'thorough':
        return {'runs': 300000, 'wall': 600, 'det_runs': 20, 'chunks_per_job': 4}
    return {'runs': 16000, 'wall': 60, 'det_runs': 10}


# ------------------------------------------------------------------ hint / object DSL over class slots
def gen_hint(rng, nslots, depth=2):
    """Small hint DSL whose leaves may be class slots: {'k':'slot','s':i}."""
    r = rng.random()
    if depth <= 0 or r < 0.35:
        r2 = rng.random()
        if r2 < 0.6 and nslots:
            return {'k': 'slot', 's': rng.randrange(nslots)}
        if r2 < 0.75:
            return {'k': 'cls', 'n': rng.choice(['int', 'str', 'float', 'bool'])}
        if r2 < 0.85:
            # (1 / True and 0 / False are equal with equal hashes; -1 / -2 and 0 / 2**61-1 are *unequal* with equal hashes)
            return {'k': 'lit', 'v': [rng.choice([1, True, 0, False, 'a', -1, -2, 2305843009213693951])]}
        if r2 < 0.92:
            return {'k': 'none'}
        return {'k': 'fwd', 'n': rng.choice(['Later', 'Later2'])}
    k = rng.choice(['list', 'List', 'dict', 'tuple', 'vtuple', 'union', 'union_rev', 'pipe', 'opt', 'set', 'type', 'ann', 'seqabc'])
    d = depth - 1
    if k in ('list', 'List', 'set', 'seqabc', 'vtuple', 'opt', 'type'):
        if k == 'type':
            return {'k': 'type', 'a': [{'k': 'slot', 's': rng.randrange(nslots)} if nslots else {'k': 'cls', 'n': 'int'}]}
        return {'k': k, 'a': [gen_hint(rng, nslots, d)]}
    if k == 'dict':
        return {'k': 'dict', 'a': [{'k': 'cls', 'n': rng.choice(['str', 'int'])}, gen_hint(rng, nslots, d)]}
    if k == 'tuple':
        return {'k': 'tuple', 'a': [gen_hint(rng, nslots, d) for _ in range(rng.randint(1, 3))]}
    if k in ('union', 'union_rev', 'pipe'):
        a = [gen_hint(rng, nslots, d) for _ in range(rng.randint(2, 3))]
        if k == 'pipe':
            a = [x for x in a if x['k'] not in ('lit', 'fwd', 'none', 'ann')] or [{'k': 'cls', 'n': 'int'}]
            if len(a) < 2:
                a.append({'k': 'cls', 'n': 'str'})
        return {'k': k, 'a': a}
    if k == 'ann':
        return {'k': 'ann', 'a': [gen_hint(rng, nslots, d)], 'v': rng.choice(['pos', 'always', 'always'])}
    raise ValueError(k)


def hint_slots(h, out=None):
    out = set() if out is None else out
    if h['k'] == 'slot':
        out.add(h['s'])
    for a in h.get('a', []) or []:
        hint_slots(a, out)
    return out


class _Raiser:
    """Validator callable that raises on its first invocation only (fault: a failing operation)."""

    def __init__(self):
        self.calls = 0

    def __call__(self, x):
        self.calls += 1
        if self.calls == 1:
            raise ValueError('validator fault')
        return True


def _p_pos(x):
    return isinstance(x, int) and x > 0


def _p_always(x):
    return True


import typing as _typing

_GT = _typing.TypeVar('_GT')


class GList(list[_GT]):
    """A user generic with a checkable body: GList[int] and GList[str] reduce to one and the same hint (list[T]) plus a table of
    type variables - metadata that anything memoised per hint has to be keyed by as well."""


_ALIASES = {}
exec('type GAlias[T] = list[T]\ntype GTree = list[GTree] | int', _ALIASES)


def build_hint(h, env):
    import typing
    from typing import Annotated, Literal, Optional, Union
    k = h['k']
    if k == 'slot':
        c = env['cls'].get(h['s'])
        if c is None:
            raise LookupError('slot %d empty' % h['s'])
        return c
    if k == 'cls':
        return {'int': int, 'str': str, 'float': float, 'bool': bool}[h['n']]
    if k == 'none':
        return None
    if k == 'lit':
        return Literal[tuple(h['v'])]
    if k == 'fwd':
        return h['n']
    if k == 'gtree':
        return _ALIASES['GTree']
    if k == 'gtree_value':
        return _ALIASES['GTree'].__value__
    a = [build_hint(x, env) for x in h.get('a', [])]
    if k == 'glist':
        return GList[a[0]]
    if k == 'galias':
        return _ALIASES['GAlias'][a[0]]
    if k == 'list':
        return list[a[0]]
    if k == 'List':
        return typing.List[a[0]]
    if k == 'set':
        return set[a[0]]
    if k == 'seqabc':
        import collections.abc
        return collections.abc.Sequence[a[0]]
    if k == 'vtuple':
        return tuple[a[0], ...]
    if k == 'opt':
        return Optional[a[0]]
    if k == 'type':
        return type[a[0]]
    if k == 'dict':
        return dict[a[0], a[1]]
    if k == 'tuple':
        return tuple[tuple(a)]
    if k == 'union':
        return Union[tuple(a)]
    if k == 'union_rev':
        return Union[tuple(reversed(a))]
    if k == 'pipe':
        r = a[0]
        for x in a[1:]:
            r = r | (type(None) if x is None else x)
        return r
    if k == 'ann':
        from beartype.vale import Is
        v = h['v']
        if v == 'raise_once':
            fn = env.setdefault('raisers', {}).setdefault(id(h), _Raiser())
            return Annotated[a[0], Is[fn]]
        return Annotated[a[0], Is[_p_pos if v == 'pos' else _p_always]]
    raise ValueError(h)


def gen_obj(rng, nslots, depth=2):
    r = rng.random()
    if depth <= 0 or r < 0.5:
        r2 = rng.random()
        if r2 < 0.45 and nslots:
            return {'o': 'slotinst', 's': rng.randrange(nslots)}
        if r2 < 0.55 and nslots:
            return {'o': 'slotcls', 's': rng.randrange(nslots)}
        return rng.choice([{'o': 'int', 'v': 1}, {'o': 'int', 'v': 0}, {'o': 'bool', 'v': True}, {'o': 'str', 'v': 'a'},
                           {'o': 'none'}, {'o': 'float', 'v': 1.5}, {'o': 'int', 'v': -1}, {'o': 'int', 'v': -2},
                           {'o': 'int', 'v': 2305843009213693951}])
    # no set objects: their iteration order follows instance addresses, so *which* item a check samples
    # would legitimately differ between two executions
    k = rng.choice(['list', 'tuple', 'dict', 'list'])
    n = rng.randint(0, 3)
    if k == 'dict':
        return {'o': 'dict', 'i': [[{'o': 'str', 'v': 'k%d' % j}, gen_obj(rng, nslots, depth - 1)] for j in range(n)]}
    if k == 'set':
        return {'o': 'set', 'i': [gen_obj(rng, nslots, 0) for _ in range(n)]}
    return {'o': k, 'i': [gen_obj(rng, nslots, depth - 1) for _ in range(n)]}


def obj_slots(o, out=None):
    out = set() if out is None else out
    if o['o'] in ('slotinst', 'slotcls'):
        out.add(o['s'])
    for i in o.get('i', []) or []:
        if isinstance(i, list):
            for x in i:
                obj_slots(x, out)
        else:
            obj_slots(i, out)
    return out


def build_obj(o, env):
    k = o['o']
    if k == 'slotinst':
        c = env['cls'].get(o['s'])
        if c is None:
            raise LookupError('slot empty')
        return c()
    if k == 'slotcls':
        c = env['cls'].get(o['s'])
        if c is None:
            raise LookupError('slot empty')
        return c
    if k in ('int', 'bool', 'str', 'float'):
        return o['v']
    if k == 'none':
        return None
    if k == 'list':
        return [build_obj(i, env) for i in o['i']]
    if k == 'glist':
        return GList(build_obj(i, env) for i in o['i'])
    if k == 'tuple':
        return tuple(build_obj(i, env) for i in o['i'])
    if k == 'set':
        out = set()
        for i in o['i']:
            try:
                out.add(build_obj(i, env))
            except TypeError:
                pass
        return out
    if k == 'dict':
        return {build_obj(a, env): build_obj(b, env) for a, b in o['i']}
    raise ValueError(o)


# ------------------------------------------------------------------ history generation
def generate(rng, run, tier):
    nslots = rng.randint(1, 4)
    avoid_repr = rng.random() < 0.85       # (was the avoid switch for the repaired repr collision: unique class names)
    # avoid switch for known finding C14-fwdref-stale-after-undecorated-redefinition: most histories redefine
    # forward-referenced names only as @beartype-decorated classes replacing @beartype-decorated classes
    avoid_plain = rng.random() < 0.85
    defined_names = {}
    hist = []
    # always start by creating the classes
    names_used = []
    for s in range(nslots):
        name = ('U%d' % s) if avoid_repr else rng.choice(CLS_NAMES)
        hist.append({'op': 'newcls', 's': s, 'name': name, 'base': rng.choice([None, None, 'int', 'prev']) if s else None})
    nh = 0
    nf = 0
    n = rng.randint(3, 22)
    nq = 0
    tmpl = rng.random()
    if tmpl < 0.25:
        # scenario: TypeHint wrappers die at a cache clear, new ones may reuse their id()s (id-keyed memo tables)
        pool = [{'k': 'cls', 'n': 'int'}, {'k': 'cls', 'n': 'str'}, {'k': 'cls', 'n': 'bool'}, {'k': 'cls', 'n': 'float'},
                {'k': 'list', 'a': [{'k': 'cls', 'n': 'int'}]}, {'k': 'list', 'a': [{'k': 'cls', 'n': 'bool'}]},
                {'k': 'union', 'a': [{'k': 'cls', 'n': 'int'}, {'k': 'cls', 'n': 'str'}]}, {'k': 'lit', 'v': ['a']},
                {'k': 'lit', 'v': [1]}, {'k': 'slot', 's': 0}, {'k': 'opt', 'a': [{'k': 'cls', 'n': 'str'}]}]
        for rnd in range(rng.randint(2, 3)):
            k = rng.randint(2, 4)
            hs = []
            for d in rng.sample(pool, k):
                hist.append({'op': 'mkhint', 'h': nh, 'dsl': d})
                hs.append(nh)
                nh += 1
            for _ in range(rng.randint(2, 5)):
                a, b = rng.sample(hs, 2)
                hist.append({'op': 'query', 'q': rng.choice(['th_le', 'th_eq', 'is_subhint']), 'h': a, 'h2': b, 'draw': 0})
            hist.append({'op': rng.choice(['clear', 'clear', 'redecorate']), 'name': 'R'})
            if rng.random() < 0.5:
                hist.append({'op': 'gc'})
        n = rng.randint(0, 4)
    elif tmpl < 0.40:
        # scenario: a function annotated by the *name* of a decorated class that is redefined again and again,
        # with calls in between (each redefinition must be noticed, not only the first)
        name = rng.choice(['Later', 'Later2'])
        text = rng.choice(['{N}', 'list[{N}]', 'Optional[{N}]']).format(N=name)
        if rng.random() < 0.5:
            hist.append({'op': 'mkfunc', 'f': nf, 'text': text})
            made = True
        else:
            made = False
        for k in range(rng.randint(2, 5)):
            hist.append({'op': 'defdec', 'n': name, 'decorated': True if avoid_plain else rng.random() < 0.8})
            defined_names[name] = hist[-1]['decorated']
            if not made:
                hist.append({'op': 'mkfunc', 'f': nf, 'text': text})
                made = True
            if rng.random() < 0.7:
                hist.append({'op': 'query', 'q': 'callfunc', 'f': nf, 'xk': rng.choice(['inst', 'inst', 'wrapped', 'other']), 'draw': 0, 'h': -1})
        hist.append({'op': 'query', 'q': 'callfunc', 'f': nf, 'xk': 'inst', 'draw': 0, 'h': -1})
        nf += 1
        n = rng.randint(0, 4)
    elif tmpl < 0.46:
        # scenario: a function annotated by a name that is unbound at decoration time, then bound to something that is not a
        # hint, called, and finally bound to a class: a failed resolution must not be remembered
        name = rng.choice(['Later', 'Later2'])
        text = rng.choice(['{N}', 'list[{N}]', 'Optional[{N}]', 'dict[str, {N}]']).format(N=name)
        hist.append({'op': 'mkfunc', 'f': nf, 'text': text})
        if rng.random() < 0.4:
            hist.append({'op': 'query', 'q': 'callfunc', 'f': nf, 'xk': 'other', 'draw': 0, 'h': -1})     # while still unbound
        hist.append({'op': 'define', 'n': name, 'junk': rng.choice([42, 3.5])})
        for _ in range(rng.randint(1, 2)):
            hist.append({'op': 'query', 'q': 'callfunc', 'f': nf, 'xk': rng.choice(['other', 'int']), 'draw': 0, 'h': -1})
        if avoid_plain:
            hist.append({'op': 'defdec', 'n': name, 'decorated': True})
            defined_names[name] = True
        else:
            hist.append({'op': 'define', 'n': name})
            defined_names[name] = False
        for _ in range(rng.randint(1, 3)):
            hist.append({'op': 'query', 'q': 'callfunc', 'f': nf, 'xk': rng.choice(['inst', 'inst', 'wrapped', 'other']), 'draw': 0, 'h': -1})
        nf += 1
        n = rng.randint(0, 4)
    elif tmpl < 0.7 and not avoid_repr:
        # scenario: two distinct classes with one qualified name, same hint shape over each
        s0 = rng.randrange(nslots)
        shape = rng.choice(['list', 'dict', 'tuple', 'seqabc', 'vtuple', 'set', 'pipe'])
        def mk(slot):
            leaf = {'k': 'slot', 's': slot}
            if shape == 'dict':
                return {'k': 'dict', 'a': [{'k': 'cls', 'n': 'str'}, leaf]}
            if shape == 'tuple':
                return {'k': 'tuple', 'a': [leaf, {'k': 'cls', 'n': 'int'}]}
            if shape == 'pipe':
                return {'k': 'pipe', 'a': [leaf, {'k': 'cls', 'n': 'int'}]}
            return {'k': shape, 'a': [leaf]}
        def obj(slot):
            inst = {'o': 'slotinst', 's': slot}
            if shape == 'dict':
                return {'o': 'dict', 'i': [[{'o': 'str', 'v': 'k'}, inst]]}
            if shape == 'tuple':
                return {'o': 'tuple', 'i': [inst, {'o': 'int', 'v': 1}]}
            if shape == 'pipe':
                return inst
            if shape == 'vtuple':
                return {'o': 'tuple', 'i': [inst]}
            if shape == 'set':
                return {'o': 'list', 'i': []}
            return {'o': 'list', 'i': [inst]}
        name = rng.choice(CLS_NAMES)
        hist.append({'op': 'newcls', 's': s0, 'name': name, 'base': None})
        hist.append({'op': 'mkhint', 'h': nh, 'dsl': mk(s0)})
        hist.append({'op': 'query', 'q': rng.choice(['is_bearable', 'die', 'decor_call']), 'h': nh, 'x': obj(s0), 'draw': 0})
        nh += 1
        hist.append({'op': 'newcls', 's': s0, 'name': name, 'base': None})
        hist.append({'op': 'mkhint', 'h': nh, 'dsl': mk(s0)})
        hist.append({'op': 'query', 'q': rng.choice(['is_bearable', 'die', 'decor_call']), 'h': nh, 'x': obj(s0), 'draw': 0})
        nh += 1
        n = rng.randint(0, 4)
    for _ in range(n):
        r = rng.random()
        if r < 0.16:
            hist.append({'op': 'mkhint', 'h': nh, 'dsl': gen_hint(rng, nslots)})
            nh += 1
        elif r < 0.24:
            s = rng.randrange(nslots)
            name = ('U%d_%d' % (s, len(hist))) if avoid_repr else rng.choice(CLS_NAMES)
            hist.append({'op': 'newcls', 's': s, 'name': name, 'base': rng.choice([None, None, 'int'])})
        elif r < 0.30:
            hist.append({'op': 'delcls', 's': rng.randrange(nslots)})
        elif r < 0.38:
            hist.append({'op': 'gc'})
        elif r < 0.43:
            hist.append({'op': 'clear'})
        elif r < 0.50:
            hist.append({'op': 'redecorate', 'name': rng.choice(['R', 'R2'])})
        elif r < 0.56:
            nm = rng.choice(['Later', 'Later2'])
            if avoid_plain and nm in defined_names:
                hist.append({'op': 'defdec', 'n': nm, 'decorated': True} if defined_names[nm] else {'op': 'gc'})
            elif nm not in defined_names and rng.random() < 0.3:
                # the name is first bound to something that is not a hint at all (a forward reference resolved now fails and
                # must not be remembered), and may be bound to a class later
                hist.append({'op': 'define', 'n': nm, 'junk': rng.choice([42, 3.5])})
            else:
                hist.append({'op': 'define', 'n': nm})
                defined_names.setdefault(nm, False)
        elif r < 0.60:
            # (re)definition of a @beartype-decorated class in the user module: the public trigger of cache clearing
            nm = rng.choice(['Later', 'Later2'])
            dec = True if avoid_plain else rng.random() < 0.8
            if avoid_plain and defined_names.get(nm) is False:
                hist.append({'op': 'gc'})
            else:
                hist.append({'op': 'defdec', 'n': nm, 'decorated': dec})
                defined_names[nm] = dec
        elif r < 0.63 and nf < 3:
            hist.append({'op': 'mkfunc', 'f': nf, 'text': rng.choice(['{N}', 'list[{N}]', 'Optional[{N}]', 'dict[str, {N}]']).format(
                N=rng.choice(['Later', 'Later2']))})
            nf += 1
        elif r < 0.70 and nf and nq < 8:
            nq += 1
            hist.append({'op': 'query', 'q': 'callfunc', 'f': rng.randrange(nf), 'xk': rng.choice(['inst', 'inst', 'other', 'int', 'wrapped']),
                         'draw': 0, 'h': -1})
        elif nh and nq < 6:
            nq += 1
            q = rng.choice(['is_bearable', 'is_bearable', 'die', 'decor_call', 'is_subhint', 'th_eq', 'th_le', 'th_is',
                            'th_is_bearable', 'th_die'])
            op = {'op': 'query', 'q': q, 'h': rng.randrange(nh), 'draw': rng.choice([0, 1, 2, 7])}
            if q in ('is_subhint', 'th_eq', 'th_le', 'th_is'):
                op['h2'] = rng.randrange(nh)
            else:
                op['x'] = gen_obj(rng, nslots)
                # the optional public parameters of the query: a message prefix (few values, so that different queries
                # share one) and a configuration
                if q != 'decor_call' and q != 'th_is_bearable' and rng.random() < 0.4:
                    op['pfx'] = rng.choice(PREFIXES)
                if rng.random() < 0.3:
                    op['conf'] = rng.randrange(1, len(QCONFS))
            if rng.random() < 0.3:
                op['twice'] = True
            hist.append(op)
            if q in ('is_bearable', 'die', 'decor_call', 'th_is_bearable', 'th_die') and rng.random() < 0.25:
                # the same hint and object under another configuration (in particular another override table)
                op3 = dict(op, conf=rng.choice([c for c in range(len(QCONFS)) if c != op.get('conf', 0)]))
                op3.pop('twice', None)
                if not op3['conf']:
                    op3.pop('conf')
                hist.append(op3)
                nq += 1
            if op.get('pfx') is not None and rng.random() < 0.5:
                # the same hint, prefix and configuration through another of the door entry points
                op2 = dict(op, q=rng.choice([x for x in ('is_bearable', 'die', 'th_die') if x != q]), x=gen_obj(rng, nslots))
                op2.pop('twice', None)
                hist.append(op2)
                nq += 1
        else:
            hist.append({'op': 'mkhint', 'h': nh, 'dsl': gen_hint(rng, nslots)})
            nh += 1
    if rng.random() < 0.06:
        # two subscriptions of one user generic / generic alias (equal once reduced, different type-variable tables), or a
        # recursive alias and its own value: each queried with objects on which the two disagree, in both orders
        fam = rng.choice(['glist', 'glist', 'galias', 'gtree'])
        if fam == 'gtree':
            ha, hb = {'k': 'gtree'}, {'k': 'gtree_value'}
            objs = [{'o': 'list', 'i': [{'o': 'list', 'i': [{'o': 'str', 'v': 'x'}]}]}, {'o': 'list', 'i': [{'o': 'int', 'v': 1}]},
                    {'o': 'list', 'i': [{'o': 'list', 'i': [{'o': 'int', 'v': 1}]}]}]
        else:
            ca, cb = rng.sample(['int', 'str', 'float', 'bool'], 2)
            ha, hb = {'k': fam, 'a': [{'k': 'cls', 'n': ca}]}, {'k': fam, 'a': [{'k': 'cls', 'n': cb}]}
            ok = 'glist' if fam == 'glist' else 'list'
            sample = {'int': {'o': 'int', 'v': 3}, 'str': {'o': 'str', 'v': 'a'}, 'float': {'o': 'float', 'v': 1.5}, 'bool': {'o': 'bool', 'v': True}}
            objs = [{'o': ok, 'i': [sample[ca]]}, {'o': ok, 'i': [sample[cb]]}]
        hist.append({'op': 'mkhint', 'h': nh, 'dsl': ha})
        hist.append({'op': 'mkhint', 'h': nh + 1, 'dsl': hb})
        for hh in rng.choice([(nh, nh + 1, nh), (nh + 1, nh, nh + 1)]):
            for o_ in rng.sample(objs, len(objs)):
                hist.append({'op': 'query', 'q': rng.choice(['is_bearable', 'is_bearable', 'die', 'decor_call', 'th_is_bearable']), 'h': hh, 'x': o_, 'draw': 0})
        nh += 2
    if rng.random() < 0.06:
        # two hints that differ only in a Literal member, the two members unequal but with equal hashes: whatever is keyed by a
        # hash alone confuses them
        a, b = rng.choice([(-1, -2), (-2, -1), (0, 2305843009213693951), (2305843009213693951, 0)])
        wrap = rng.choice(['bare', 'list', 'dict', 'tuple', 'opt', 'vtuple'])

        def mk(v):
            lit = {'k': 'lit', 'v': [v]}
            return {'bare': lit, 'list': {'k': 'list', 'a': [lit]}, 'dict': {'k': 'dict', 'a': [{'k': 'cls', 'n': 'str'}, lit]},
                    'tuple': {'k': 'tuple', 'a': [{'k': 'cls', 'n': 'str'}, lit]}, 'opt': {'k': 'opt', 'a': [lit]},
                    'vtuple': {'k': 'vtuple', 'a': [lit]}}[wrap]

        def ob(v):
            o = {'o': 'int', 'v': v}
            return {'bare': o, 'list': {'o': 'list', 'i': [o]}, 'dict': {'o': 'dict', 'i': [[{'o': 'str', 'v': 'k0'}, o]]},
                    'tuple': {'o': 'tuple', 'i': [{'o': 'str', 'v': 's'}, o]}, 'opt': o, 'vtuple': {'o': 'tuple', 'i': [o]}}[wrap]
        hist.append({'op': 'mkhint', 'h': nh, 'dsl': mk(a)})
        hist.append({'op': 'mkhint', 'h': nh + 1, 'dsl': mk(b)})
        for hh in (nh, nh + 1, nh):
            for v in rng.sample([a, b], 2):
                hist.append({'op': 'query', 'q': rng.choice(['is_bearable', 'is_bearable', 'die', 'decor_call']), 'h': hh, 'x': ob(v), 'draw': 0})
        nh += 2
    if rng.random() < 0.12:
        # door functions with *string* hints resolved against the user module, the name bound first to one thing (an
        # ignorable alias more often than not) and then to another
        name = rng.choice(['Later', 'Later2'])
        text = rng.choice(DOOR_TEXTS_ROOT + (DOOR_TEXTS_NESTED if rng.random() < 0.1 else [])).format(N=name)
        first = rng.choice(['ALIAS:object', 'ALIAS:Any', 'ALIAS:object', 'cls', 'ALIAS:int'])
        second = rng.choice(['cls', 'ALIAS:int', 'ALIAS:str', 'ALIAS:object'])
        for bind in (first, second):
            hist.append({'op': 'define', 'n': name} if bind == 'cls' else {'op': 'define', 'n': name, 'junk': bind})
            for _ in range(rng.randint(1, 2)):
                hist.append({'op': 'query', 'q': 'door_str', 'text': text, 'api': rng.choice(['is_bearable', 'is_bearable', 'die']),
                             'xk': rng.choice(['str', 'int', 'inst', 'other']), 'draw': 0})
    return {'hist': hist, 'nslots': nslots}


# ------------------------------------------------------------------ execution
MODNAME = 'c14_user_mod'
# string hints handed to the door functions from the user module: the name at the root / directly in a union, or nested in a
# container (avoid switch: the nested forms after an ignorable alias are known finding C14-door-nested-string-after-ignorable-alias)
DOOR_TEXTS_ROOT = ["'{N}'", "Union['{N}', bytes]", "Optional['{N}']", "'{N}'"]
DOOR_TEXTS_NESTED = ["list['{N}']", "dict[str, '{N}']", "tuple['{N}', ...]", "list[Optional['{N}']]"]
ALIASES = {'ALIAS:object': object, 'ALIAS:int': int, 'ALIAS:str': str}
PREFIXES = ['P: ', 'P: ', 'is_bearable() ', 'die_if_unbearable() ', '']
QCONFS = [None, {'is_color': False}, {'tower': True}, {'strategy': 'On'}, {'vt': 'valueerror'},
          # configurations that differ only in their override tables (whatever is cached per hint must be cached per table)
          {'overrides': [[{'k': 'cls', 'n': 'str'}, {'k': 'union', 'a': [{'k': 'cls', 'n': 'str'}, {'k': 'cls', 'n': 'bytes'}]}]]},
          {'overrides': [[{'k': 'cls', 'n': 'int'}, {'k': 'union', 'a': [{'k': 'cls', 'n': 'int'}, {'k': 'cls', 'n': 'str'}]}]]},
          {'overrides': [[{'k': 'cls', 'n': 'str'}, {'k': 'union', 'a': [{'k': 'cls', 'n': 'str'}, {'k': 'cls', 'n': 'int'}]}]]}]


def _fresh_env():
    import sys
    import types
    mod = types.ModuleType(MODNAME)
    sys.modules[MODNAME] = mod
    return {'cls': {}, 'hints': {}, 'mod': mod, 'fault_log': []}


def _do_newcls(op, env):
    base = op.get('base')
    bases = ()
    if base == 'int':
        bases = (int,)
    elif base == 'prev':
        p = env['cls'].get(op['s'] - 1)
        bases = (p,) if p is not None else ()
    c = type(op['name'], bases, {'__module__': MODNAME})
    env['cls'][op['s']] = c


def _apply(op, env, probes=None):
    """Non-query operation."""
    k = op['op']
    if k == 'newcls':
        _do_newcls(op, env)
    elif k == 'delcls':
        env['cls'][op['s']] = None
        for hk in list(env['hints']):
            if op['s'] in env['hints'][hk][1]:
                del env['hints'][hk]
    elif k == 'gc':
        gc.collect()
    elif k == 'mkhint':
        sl = hint_slots(op['dsl'])
        try:
            env['hints'][op['h']] = (build_hint(op['dsl'], env), sl, op['dsl'])
        except LookupError:
            pass
        except Exception:   # noqa  (e.g. X | Y unsupported operand)
            pass
    elif k == 'clear':
        from beartype._util.cache.utilcacheclear import clear_caches
        clear_caches()
    elif k == 'redecorate':
        from beartype import beartype
        for _ in range(2):
            c = type(op['name'], (), {'__module__': MODNAME, 'm': _mk_method()})
            try:
                beartype(c)
            except Exception:   # noqa
                pass
    elif k == 'define':
        if 'junk' in op:
            import typing
            j = op['junk']
            setattr(env['mod'], op['n'], typing.Any if j == 'ALIAS:Any' else ALIASES.get(j, j) if isinstance(j, str) else j)
        else:
            setattr(env['mod'], op['n'], type(op['n'], (), {'__module__': MODNAME}))
    elif k == 'defdec':
        from beartype import beartype
        c = type(op['n'], (), {'__module__': MODNAME, 'm': _mk_method()})
        if op.get('decorated', True):
            try:
                c = beartype(c)
            except Exception:   # noqa
                pass
        setattr(env['mod'], op['n'], c)
    elif k == 'mkfunc':
        from beartype import beartype
        ns = {}
        src = 'def f%d(a: %r):\n    return a\n' % (op['f'], op['text'])
        exec(compile(src, '<c14-func>', 'exec'), env['mod'].__dict__, ns)
        f = ns['f%d' % op['f']]
        f.__module__ = MODNAME
        try:
            env.setdefault('funcs', {})[op['f']] = (beartype(f), op['text'])
        except Exception:       # noqa
            pass


def _mk_method():
    def m(self, a: int) -> int:
        return a
    return m


def _query(op, env):
    """Execute a query; returns a normalised answer."""
    import warnings
    from beartype import BeartypeConf, beartype, door
    from sim import boot
    q = op['q']
    if q == 'door_str':
        import typing
        mod = env['mod']
        if '_c14_door' not in mod.__dict__:
            # the calls are made *from the user module*, whose globals the string hints are resolved against
            exec('from beartype.door import is_bearable as _c14_ib, die_if_unbearable as _c14_die\n'
                 'def _c14_door(api, x, h):\n'
                 '    return _c14_ib(x, h) if api == "is_bearable" else _c14_die(x, h)\n', mod.__dict__)
        name = 'Later2' if 'Later2' in op['text'] else 'Later'
        bound = mod.__dict__.get(name)
        hint = eval(op['text'], {'Union': typing.Union, 'Optional': typing.Optional})
        other = type('Other', (), {})
        xk = op['xk']
        if xk == 'inst' and not (isinstance(bound, type) and bound.__module__ == MODNAME):
            xk = 'other'
        x = {'inst': bound() if xk == 'inst' else None, 'other': other(), 'int': 5, 'str': 's'}[xk]
        if 'list[' in op['text']:
            x = [x]
        elif 'dict[' in op['text']:
            x = {'k': x}
        elif 'tuple[' in op['text']:
            x = (x, x)
        boot.SAMPLER.sticky = op['draw']
        try:
            with warnings.catch_warnings():
                warnings.simplefilter('ignore')
                return ['ok', mod.__dict__['_c14_door'](op['api'], x, hint)]
        except Exception as e:      # noqa
            return ops.exc_outcome(e)[:3]
        finally:
            boot.SAMPLER.sticky = None
    if q == 'callfunc':
        fe = env.get('funcs', {}).get(op['f'])
        if fe is None:
            return ['skipped']
        f, text = fe
        name = 'Later2' if 'Later2' in text else 'Later'
        cls = env['mod'].__dict__.get(name)
        xk = op['xk']
        if not isinstance(cls, type):
            cls = None          # undefined, or bound to a non-hint value: there is no instance to pass
            if xk in ('inst', 'wrapped'):
                xk = 'other'
        other = type('Other', (), {})
        inst = cls() if cls is not None else None
        x = {'inst': inst, 'other': other(), 'int': 5}.get(xk)
        if xk == 'wrapped':
            x = [inst] if text.startswith('list') else ({'k': inst} if text.startswith('dict') else inst)
        boot.SAMPLER.sticky = op['draw']
        try:
            with warnings.catch_warnings():
                warnings.simplefilter('ignore')
                r = f(x)
            return ['ok', r is x]
        except Exception as e:      # noqa
            return ops.exc_outcome(e)[:3]
        finally:
            boot.SAMPLER.sticky = None
    he = env['hints'].get(op['h'])
    if he is None:
        return ['skipped']
    hint = he[0]
    boot.SAMPLER.sticky = op['draw']
    try:
        with warnings.catch_warnings():
            warnings.simplefilter('ignore')
            if q in ('is_bearable', 'die', 'decor_call', 'th_is_bearable', 'th_die'):
                try:
                    x = build_obj(op['x'], env)
                except LookupError:
                    return ['skipped']
                kw = {}
                if op.get('conf'):
                    kw['conf'] = ops.build_conf(QCONFS[op['conf']])
                ckw = dict(kw)
                if op.get('pfx') is not None:
                    kw['exception_prefix'] = op['pfx']
                if q == 'is_bearable':
                    return ['ok', door.is_bearable(x, hint, **kw)]
                if q == 'th_is_bearable':
                    return ['ok', door.TypeHint(hint).is_bearable(x, **ckw)]
                if q in ('die', 'th_die'):
                    try:
                        if q == 'die':
                            r = door.die_if_unbearable(x, hint, **kw)
                        else:
                            r = door.TypeHint(hint).die_if_unbearable(x, **kw)
                    except Exception as e:      # noqa
                        out = ops.exc_outcome(e)[:3]
                        if out[2] == 'violation' or isinstance(e, ValueError):
                            # the message of a violation starts with the prefix asked for
                            out = out + [str(e).lower().startswith((op.get('pfx') if op.get('pfx') is not None else 'die_if_unbearable() ').lower())]
                        return out
                    return ['ok', r]
                g = {'__name__': MODNAME, 'H': hint}
                ns = {}
                # decorated in the user module so that forward references resolve against it
                src = 'def f(a): return a\n'
                code = compile(src, '<c14>', 'exec')
                exec(code, env['mod'].__dict__, ns)
                f = ns['f']
                f.__module__ = MODNAME
                f.__annotations__ = {'a': hint}
                f = beartype(conf=ckw['conf'])(f) if ckw else beartype(f)
                r = f(x)
                return ['ok', r is x]
            he2 = env['hints'].get(op['h2'])
            if he2 is None:
                return ['skipped']
            h2 = he2[0]
            if q == 'is_subhint':
                return ['ok', door.is_subhint(hint, h2)]
            t1, t2 = door.TypeHint(hint), door.TypeHint(h2)
            if q == 'th_eq':
                return ['ok', t1 == t2, (hash(t1) == hash(t2)) if t1 == t2 else None]
            if q == 'th_le':
                return ['ok', t1 <= t2]
            if q == 'th_is':
                same = False
                try:
                    same = (hint is h2) or (hint == h2 and hash(hint) == hash(h2))
                except Exception:   # noqa
                    pass
                return ['ok', (t1 is t2) if same else 'n/a', door.TypeHint(hint) is t1]
    except Exception as e:      # noqa
        return ops.exc_outcome(e)[:3]
    finally:
        boot.SAMPLER.sticky = None
    return ['skipped']


def _cls_def(hist, s, before, idx):
    """Add to ``idx`` the newcls operation defining slot ``s`` as seen just before index ``before`` (and,
    transitively, the classes it derives from)."""
    for j in range(before - 1, -1, -1):
        o = hist[j]
        if o['op'] == 'delcls' and o['s'] == s:
            return
        if o['op'] == 'newcls' and o['s'] == s:
            idx.add(j)
            if o.get('base') == 'prev' and s > 0:
                _cls_def(hist, s - 1, j, idx)
            return


def _deps(hist, qi):
    """Indices of the operations needed to construct the arguments of query ``qi`` (and nothing else)."""
    q = hist[qi]
    if q['q'] == 'callfunc':
        idx = set()
        names = set()
        for j in range(qi - 1, -1, -1):
            o = hist[j]
            if o['op'] == 'mkfunc' and o['f'] == q['f']:
                idx.add(j)
                names.add('Later2' if 'Later2' in o['text'] else 'Later')
                break
        mk = min(idx) if idx else qi
        for name in names:
            # the definition in force when the function was decorated (a name that exists then is bound then, exactly
            # like an evaluated annotation) and the definition in force at query time (the object is an instance of it)
            for j in range(mk - 1, -1, -1):
                o = hist[j]
                if o['op'] in ('define', 'defdec') and o['n'] == name:
                    idx.add(j)
                    break
            for j in range(qi - 1, -1, -1):
                o = hist[j]
                if o['op'] in ('define', 'defdec') and o['n'] == name:
                    idx.add(j)
                    break
        return sorted(idx)
    if q['q'] == 'door_str':
        # the binding of each name in force at query time
        last = {}
        for j in range(qi):
            if hist[j]['op'] in ('define', 'defdec'):
                last[hist[j]['n']] = j
        return sorted(last.values())
    need_h = {q['h']}
    if 'h2' in q:
        need_h.add(q['h2'])
    idx = set()
    for hh in need_h:
        for j in range(qi - 1, -1, -1):
            o = hist[j]
            if o['op'] == 'mkhint' and o['h'] == hh:
                idx.add(j)
                for s in hint_slots(o['dsl']):
                    _cls_def(hist, s, j, idx)
                break
    if 'x' in q:
        for s in obj_slots(q['x']):
            _cls_def(hist, s, qi, idx)
    # forward references: names defined before qi stay defined (they are part of the query's meaning);
    # of several definitions of one name only the last one is in force
    last = {}
    for j in range(qi):
        if hist[j]['op'] in ('define', 'defdec'):
            last[hist[j]['n']] = j
    idx.update(last.values())
    return sorted(idx)


def execute(case):
    from sim import boot, state
    gc.disable()
    boot.SAMPLER.reset()
    hist = case['hist']
    env = _fresh_env()
    probes = {k: 0 for k in PROBES}
    answers = {}
    viol = None
    names = {}
    faults = 0
    for i, op in enumerate(hist):
        if op['op'] == 'query':
            a = _query(op, env)
            answers[i] = a
            probes['queries'] += 1
            if op['q'] == 'door_str':
                probes['door_string_queries'] += 1
            if a and a[0] == 'exc':
                probes['failing_ops'] += 1
            if op.get('twice') and a[0] != 'skipped':
                probes['repeat_queries'] += 1
                b = _query(op, env)
                if b != a and not _raise_once_involved(hist, op):
                    viol = ('repeat_differs', 'query %d %r answered %r then %r' % (i, _short(op), a, b), 'repeat:' + op['q'])
                    break
        else:
            if op['op'] == 'newcls':
                if op['name'] in names and names[op['name']] != i:
                    probes['same_named_classes'] += 1
                    faults += 1
                names[op['name']] = i
            elif op['op'] == 'gc':
                probes['gc_after_del'] += 1
                faults += 1
            elif op['op'] in ('clear', 'redecorate'):
                probes['cache_clears'] += 1
                faults += 1
            elif op['op'] in ('define', 'defdec'):
                probes['fwdref_define_later'] += 1
                if op['op'] == 'defdec' and op['n'] in names:
                    probes['cache_clears'] += 1
                    faults += 1
                names[op['n']] = i
            elif op['op'] == 'mkhint' and _lookalike(op['dsl']):
                probes['lookalike_hints'] += 1
            _apply(op, env)
    # fresh answers
    if viol is None:
        for qi, a in answers.items():
            if a[0] == 'skipped':
                continue
            state.restore()
            gc.collect()
            env2 = _fresh_env()
            for j in _deps(hist, qi):
                _apply(hist[j], env2)
            fresh = _query(hist[qi], env2)
            if fresh != a:
                why = _why(hist, qi)
                viol = ('history_dependence', 'query %d %s: after the history %r, fresh %r; history=%r' % (
                    qi, _short(hist[qi]), a, fresh, [_short(o) for o in hist[:qi]]), why)
                break
    import sys
    sys.modules.pop(MODNAME, None)
    out = {'digest': kernel.stable_hash(hist), 'nontrivial': faults > 0 and probes['queries'] > 0, 'probes': probes,
           'stats': {'same_named': probes['same_named_classes'], 'gc': probes['gc_after_del'],
                     'cache_clear': probes['cache_clears'], 'failing': probes['failing_ops']}, 'violation': None}
    if viol:
        out['violation'] = {'kind': viol[0], 'detail': viol[1][:3000], 'key': viol[2]}
    return out


def _raise_once_involved(hist, op):
    for hh in (op.get('h'), op.get('h2')):
        for o in hist:
            if o['op'] == 'mkhint' and o['h'] == hh and 'raise_once' in repr(o['dsl']):
                return True
    return False


def _lookalike(dsl):
    s = repr(dsl)
    return "'lit'" in s or "'union_rev'" in s or "'List'" in s


def _undetectable_redefinition(hist, qi):
    """Does the history redefine a forward-referenced name in a way beartype cannot notice (the old or the new class
    is not @beartype-decorated)?"""
    q = hist[qi]
    if q.get('q') != 'callfunc':
        return False
    name = None
    for o in hist[:qi]:
        if o['op'] == 'mkfunc' and o['f'] == q['f']:
            name = 'Later2' if 'Later2' in o['text'] else 'Later'
    defs = [bool(o.get('decorated')) if o['op'] == 'defdec' else False
            for o in hist[:qi] if o['op'] in ('define', 'defdec') and o['n'] == name]
    return any(not (a and b) for a, b in zip(defs, defs[1:]))


def _registry_wiped_redefinition(hist, qi):
    """Known finding C14-fwdref-stale-after-registry-wipe, decided by a small model of beartype's register of decorated
    class names: a decorated definition of a name that is in the register clears the caches (a resolved forward reference is
    forgotten) and empties the register; any other decorated definition only adds its name. The query is attributed to the
    finding when the function's forward reference was resolved to a decorated definition of N, N was then redefined as a
    decorated class while its name was *not* in the register (so nothing was cleared), and no clear happened afterwards."""
    q = hist[qi]
    if q.get('q') != 'callfunc':
        return False
    name = None
    for o in hist[:qi]:
        if o['op'] == 'mkfunc' and o['f'] == q['f']:
            name = 'Later2' if 'Later2' in o['text'] else 'Later'
    if name is None:
        return False
    register = set()
    ver, deco = 0, {}
    resolved, blame = None, None

    def decorate(n):
        nonlocal resolved, blame
        if n in register:
            resolved, blame = None, None
            register.clear()
        register.add(n)
    mk_seen = False
    for o in hist[:qi]:
        k = o['op']
        if k == 'mkfunc' and o['f'] == q['f']:
            mk_seen = True
        elif k == 'redecorate':
            decorate(o['name'])
            decorate(o['name'])
        elif k in ('define', 'defdec'):
            decorated = (k == 'defdec' and o.get('decorated', True)) and 'junk' not in o
            unnoticed = decorated and o['n'] not in register
            if decorated:
                decorate(o['n'])
            if o['n'] == name:
                ver += 1
                deco[ver] = 'junk' if 'junk' in o else decorated
                if resolved is not None:
                    blame = 'registry' if (decorated and unnoticed and deco.get(resolved) is True) else 'other'
        elif k == 'clear':
            resolved, blame = None, None
        elif k == 'query' and o.get('q') == 'callfunc' and o.get('f') == q['f'] and mk_seen:
            if resolved is None and ver > 0 and deco.get(ver) != 'junk':
                resolved = ver
    return resolved is not None and resolved != ver and blame == 'registry'


def _why(hist, qi):
    """Classify: is this the repr collision of same-named classes?"""
    names = {}
    dup = False
    for o in hist[:qi]:
        if o['op'] == 'newcls':
            if o['name'] in names:
                dup = True
            names[o['name']] = 1
    tags = [hist[qi]['q']]
    if hist[qi]['q'] == 'door_str':
        qq = hist[qi]
        name = 'Later2' if 'Later2' in qq['text'] else 'Later'
        nested = any(qq['text'].startswith(p) for p in ('list[', 'dict[', 'tuple['))
        if nested and any(o['op'] == 'define' and o['n'] == name and o.get('junk') in ('ALIAS:object', 'ALIAS:Any') for o in hist[:qi]):
            tags.append('nested_string_after_ignorable_alias')
    if _undetectable_redefinition(hist, qi):
        tags.append('undecorated_redefinition')
    if _registry_wiped_redefinition(hist, qi):
        tags.append('registry_wiped_redefinition')
    if dup:
        tags.append('same_named_classes')
    if any(o['op'] in ('clear', 'redecorate') for o in hist[:qi]):
        tags.append('cache_clear')
    if any(o['op'] == 'define' for o in hist[:qi]):
        tags.append('define')
    return '+'.join(tags)


def _short(op):
    s = repr(op)
    return s if len(s) < 260 else s[:260] + '...'


# ------------------------------------------------------------------ shrinking
def shrink(case, violation):
    h = case['hist']
    for cand in kernel.drop_chunks(h, 1):
        yield {'hist': cand, 'nslots': case['nslots']}


def _sig_repr_collision(case, v):
    return v.get('kind') == 'history_dependence' and 'same_named_classes' in v.get('key', '')


def _sig_plain_redefinition(case, v):
    return v.get('kind') == 'history_dependence' and 'undecorated_redefinition' in v.get('key', '')


def _sig_registry_wipe(case, v):
    return v.get('kind') == 'history_dependence' and 'registry_wiped_redefinition' in v.get('key', '')


def _sig_door_nested_alias(case, v):
    return v.get('kind') == 'history_dependence' and 'nested_string_after_ignorable_alias' in v.get('key', '') \
        and ("after the history ['ok', True]" in v.get('detail', '') or "after the history ['ok', None]" in v.get('detail', ''))


SIGNATURES = {'door_nested_string_after_ignorable_alias': _sig_door_nested_alias, 'repr_collision': _sig_repr_collision, 'fwdref_stale_after_undecorated_redefinition': _sig_plain_redefinition,
              'fwdref_stale_after_registry_wipe': _sig_registry_wipe}


def describe(case):
    return [_short(o) for o in case['hist']]
