"""C17 -- configurations are memoised, comparable and validated the same way every time.

A *history* of BeartypeConf(**kw) constructions (valid, invalid, look-alike and
unhashable option values, shuffled keyword order, the BEARTYPE_IS_COLOR
environment fault, in a fraction of runs two threads under the baton scheduler)
is executed against the real class and, in lock-step, against a small reference
model: ``validate(kw)`` (the documented rules) and a table keyed by the *typed*
arguments. Invalid values must raise BeartypeConfParamException whatever was
created before; this is cross-checked against the same construction at the
start of history (fresh memo table).
"""
import os

from sim import kernel

ID = 'C17'
BATCH = True
RULE = ('seeded histories of 2-10 BeartypeConf(**kw) constructions; every option drawn from pools of valid values, '
        'invalid values, look-alikes (1/0/1.0/2 for True/False/enum members) and unhashable values; keyword order '
        'shuffled; kwargs round trip, ==/hash/is and read-back checked after every step; BEARTYPE_IS_COLOR set/unset as '
        'a fault; 20% of runs construct from two threads under the seeded scheduler. Non-trivial = the history contains '
        'at least one invalid or look-alike value or an environment fault or a thread switch; distinct = distinct '
        'operation lists')
INTERLEAVING_MEASURE = 'distinct histories (operation lists); for threaded runs distinct (task,file,line) digests'
COMPONENTS = {
    'real': ['beartype.BeartypeConf and its validation / memo table (from /repo working tree)', 'os.environ'],
    'stub': ['threading.Lock -> SimLock; thread scheduling (threaded runs only)', 'process boundary: state restored in place between runs'],
}
ASSUMPTIONS = ['the reference validate() encodes the rules documented in BeartypeConf.__new__ / conftest.py',
               'explicit copies of defaulted values (e.g. violation_door_type=BeartypeDoorHintViolation) are not generated '
               'as raw arguments: the property leaves open whether they denote the same configuration as the default']
PROBES = ['invalid_after_equal_valid', 'lookalike_values', 'unhashable_values', 'env_faults', 'threaded_runs', 'roundtrips']


def tiers(tier):
    if tier == 'thorough':
        return {'runs': 400000, 'wall': 600, 'det_runs': 20, 'chunks_per_job': 4}
    return {'runs': 30000, 'wall': 60, 'det_runs': 10}


# ------------------------------------------------------------------ option pools (tokens are JSON)
BOOL_OPTS = ['is_debug', 'is_pep484_tower', 'is_pep557_fields', 'is_random', 'claw_is_pep526']
POOLS = {
    'bool': {'valid': [True, False], 'alike': [1, 0, 1.0, 0.0], 'invalid': ['yes', None, 2, []]},
    'is_color': {'valid': [True, False, None], 'alike': [1, 0, 1.0], 'invalid': ['x', 2]},
    'strategy': {'valid': ['E:BeartypeStrategy.O0', 'E:BeartypeStrategy.O1', 'E:BeartypeStrategy.Ologn', 'E:BeartypeStrategy.On'],
                 'alike': [2, 1, 4], 'invalid': ['O1', None]},
    'violation_verbosity': {'valid': ['E:BeartypeViolationVerbosity.MINIMAL', 'E:BeartypeViolationVerbosity.DEFAULT',
                                      'E:BeartypeViolationVerbosity.MAXIMAL'],
                            'alike': [1, 2, 3, 2.0], 'invalid': ['DEFAULT', None, 7]},
    'place': {'valid': ['E:BeartypeDecorPlace.FIRST', 'E:BeartypeDecorPlace.LAST', 'E:BeartypeDecorPlace.LAST_BEFORE_DECOR_HOSTILE'],
              'alike': [1, 2, 3], 'invalid': ['FIRST', None]},
    # B:...: beartype's own violation classes, i.e. the values the three specific options get when they are *not* passed
    'vtype': {'valid': [None, 'C:ValueError', 'C:UserViolation', 'C:UserWarningV', 'C:RuntimeWarning',
                        'B:BeartypeDoorHintViolation', 'B:BeartypeCallHintParamViolation', 'B:BeartypeCallHintReturnViolation'],
              'alike': [], 'invalid': ['C:int', 'x', 'I:ValueError', 0]},
    'skip': {'valid': ['T:', 'T:aa', 'T:aa,bb', 'T:bb,aa'], 'alike': ['L:aa', 'L:'], 'invalid': ['T:1x', 'N:1', 5]},
    # Tf / Tc: exactly what the numeric tower maps float / complex to; Xf / Xc: something else (conflicts with the tower option)
    'overrides': {'valid': ['F:', 'F:int=float', 'F:str=bytes', 'F:float=Tf', 'F:complex=Tc', 'F:float=Tf,complex=Tc', 'F:float=Xf',
                            'F:complex=Xc', 'F:float=Tf,complex=Xc', 'F:float=Xf,complex=Tc', 'F:int=float,float=Tf,complex=Xc',
                            'F:float=Xf,complex=Xc'],
                  'alike': ['D:int=float', 'D:'], 'invalid': ['x', None]},
    'wcls': {'valid': [None, 'C:UserWarningV', 'C:RuntimeWarning'], 'alike': [], 'invalid': ['C:ValueError', 'C:int', 'x']},
}
OPT_POOL = {
    'is_debug': 'bool', 'is_pep484_tower': 'bool', 'is_pep557_fields': 'bool', 'is_random': 'bool', 'claw_is_pep526': 'bool',
    'is_color': 'is_color', 'strategy': 'strategy', 'violation_verbosity': 'violation_verbosity',
    'claw_decor_place_func': 'place', 'claw_decor_place_type': 'place',
    'violation_type': 'vtype', 'violation_door_type': 'vtype', 'violation_param_type': 'vtype', 'violation_return_type': 'vtype',
    'claw_skip_package_names': 'skip', 'hint_overrides': 'overrides', 'warning_cls_on_decorator_exception': 'wcls',
}
OPTS = sorted(OPT_POOL)


def _value(tok):
    """Token -> actual Python value (built inside the run)."""
    import beartype
    from sim import ops
    if isinstance(tok, str):
        if tok.startswith('E:'):
            cls, mem = tok[2:].split('.')
            return getattr(getattr(beartype, cls), mem)
        if tok.startswith('B:'):
            import beartype.roar as roar
            return getattr(roar, tok[2:])
        if tok.startswith('C:') or tok.startswith('I:'):
            n = tok[2:]
            c = {'ValueError': ValueError, 'UserViolation': ops.UserViolation, 'UserWarningV': ops.UserWarningV,
                 'RuntimeWarning': RuntimeWarning, 'int': int}[n]
            return c if tok.startswith('C:') else c()
        if tok.startswith('T:'):
            return tuple(x for x in tok[2:].split(',') if x)
        if tok.startswith('L:'):
            return [x for x in tok[2:].split(',') if x]
        if tok.startswith('N:'):
            return (1,)
        if tok.startswith('F:') or tok.startswith('D:'):
            from beartype import BeartypeHintOverrides
            d = {}
            for item in tok[2:].split(','):
                if item:
                    a, b = item.split('=')
                    import typing
                    d[{'int': int, 'str': str, 'float': float, 'complex': complex}[a]] = {
                        'float': float, 'bytes': bytes, 'Tf': typing.Union[float, int], 'Tc': typing.Union[complex, float, int],
                        'Xf': typing.Union[float, str], 'Xc': typing.Union[complex, str]}[b]
            return BeartypeHintOverrides(d) if tok.startswith('F:') else d
    return tok


def _classify(name, tok):
    """'valid' | 'invalid' per the documented rules (look-alikes are invalid unless listed valid)."""
    p = POOLS[OPT_POOL[name]]
    for v in p['valid']:
        if v == tok and type(v) is type(tok):
            return 'valid'
    if OPT_POOL[name] == 'skip' and isinstance(tok, str) and tok.startswith('L:'):
        return 'unhashable-valid'       # a list of identifiers passes the documented validation but cannot be hashed
    return 'invalid'


def model_validate(kw, env_color):
    """Reference validation. Returns 'ok' | 'invalid' | 'either' ('either' = must work or raise the param exception)."""
    verdict = 'ok'
    for name, tok in kw.items():
        c = _classify(name, tok)
        if name == 'is_color' and env_color is not None:
            # the environment variable overrides whatever is passed (with a warning); an invalid passed value is
            # then never looked at -- the documented adjustment
            continue
        if c == 'invalid':
            return 'invalid'
        if c == 'unhashable-valid':
            verdict = 'either'
    if kw.get('is_pep484_tower') is True:
        ov = kw.get('hint_overrides')
        # documented: an override of float / complex that differs from what the tower maps it to conflicts with the tower
        if isinstance(ov, str) and ov.startswith('F:') and ('=Xf' in ov or '=Xc' in ov):
            return 'invalid'
    return verdict


RAW_DEFAULTS = {
    'claw_decor_place_func': 'E:BeartypeDecorPlace.LAST_BEFORE_DECOR_HOSTILE', 'claw_decor_place_type': 'E:BeartypeDecorPlace.LAST',
    'claw_is_pep526': True, 'claw_skip_package_names': 'T:', 'hint_overrides': 'F:', 'is_debug': False,
    'is_pep484_tower': False, 'is_pep557_fields': False, 'is_random': True, 'strategy': 'E:BeartypeStrategy.O1',
    'violation_door_type': None, 'violation_param_type': None, 'violation_return_type': None, 'violation_type': None,
    'violation_verbosity': 'E:BeartypeViolationVerbosity.DEFAULT',
    # 'warning_cls_on_decorator_exception' has a private sentinel default: passing None differs from not passing it
}


def model_key(kw, env_color):
    d = {}
    for name in OPTS:
        if name in kw:
            tok = kw[name]
            if name in RAW_DEFAULTS and RAW_DEFAULTS[name] == tok and type(RAW_DEFAULTS[name]) is type(tok):
                continue        # passing the documented default explicitly equals not passing it
            d[name] = repr(tok)
    if env_color is not None:
        d['is_color'] = repr(env_color)
    if d.get('is_color') in ('None', "'env-None'"):
        del d['is_color']       # None (passed explicitly or via the environment) equals not passing it
    return tuple(sorted(d.items()))


# ------------------------------------------------------------------ generation
VT_OPTS = ('violation_type', 'violation_door_type', 'violation_param_type', 'violation_return_type')


def gen_kw(rng, spice):
    n = rng.choice([0, 1, 1, 2, 2, 3, 4])
    names = rng.sample(OPTS, n)
    if rng.random() < 0.12:
        # focus on the four violation-type options, which are validated and defaulted from one another: any subset of
        # them (all four included) with at most one or two of the values invalid
        names = [o for o in VT_OPTS if rng.random() < 0.7] + rng.sample([o for o in OPTS if o not in VT_OPTS], rng.choice([0, 0, 1]))
        kw = {}
        bad = set(rng.sample(names, min(len(names), rng.choice([0, 1, 1, 2])))) if names else set()
        for name in names:
            p = POOLS[OPT_POOL[name]]
            pool = (p['invalid'] or p['valid']) if name in bad else [t for t in p['valid'] if t is not None or name not in VT_OPTS or rng.random() < 0.2]
            kw[name] = rng.choice(pool)
        return kw
    kw = {}
    for name in names:
        p = POOLS[OPT_POOL[name]]
        r = rng.random()
        if r < spice and (p['alike'] or p['invalid']):
            pool = p['alike'] if (p['alike'] and rng.random() < 0.6) else p['invalid']
            if not pool:
                pool = p['invalid'] or p['valid']
        else:
            pool = p['valid']
        tok = rng.choice(pool)
        if name in ('violation_door_type', 'violation_param_type', 'violation_return_type') and tok is None and rng.random() < 0.5:
            continue
        kw[name] = tok
    return kw


def generate(rng, run, tier):
    nops = rng.randint(2, 10)
    spice = rng.choice([0.0, 0.15, 0.3, 0.5])
    ops_ = []
    pool_kw = []
    for _ in range(nops):
        r = rng.random()
        if r < 0.08:
            ops_.append({'op': 'env', 'v': rng.choice(['True', 'False', 'None', None])})
            continue
        if pool_kw and r < 0.35:
            # re-create an earlier one (possibly with a look-alike substituted) in another keyword order
            kw = dict(rng.choice(pool_kw))
            if kw and rng.random() < 0.5:
                name = rng.choice(sorted(kw))
                p = POOLS[OPT_POOL[name]]
                if p['alike']:
                    kw[name] = rng.choice(p['alike'])
        elif pool_kw and r < 0.45:
            # an earlier one plus, spelt out, a value that it gets by derivation anyway: the specific violation classes (from
            # violation_type or beartype's defaults) or the numeric tower's own overrides. Different arguments, same settings:
            # the two configurations must be distinct, unequal objects
            kw = dict(rng.choice(pool_kw))
            vt = kw.get('violation_type')
            which = rng.choice(['violation_door_type', 'violation_param_type', 'violation_return_type', 'hint_overrides'])
            if which == 'hint_overrides':
                kw['is_pep484_tower'] = True
                kw['hint_overrides'] = rng.choice(['F:float=Tf', 'F:complex=Tc', 'F:float=Tf,complex=Tc'])
            elif isinstance(vt, str) and vt.startswith('C:'):
                kw[which] = vt
            else:
                kw[which] = {'violation_door_type': 'B:BeartypeDoorHintViolation', 'violation_param_type': 'B:BeartypeCallHintParamViolation',
                             'violation_return_type': 'B:BeartypeCallHintReturnViolation'}[which]
        else:
            kw = gen_kw(rng, spice)
        pool_kw.append(kw)
        order = sorted(kw)
        rng.shuffle(order)
        ops_.append({'op': 'new', 'kw': kw, 'order': order})
    threaded = rng.random() < 0.2
    # avoid switch for the kwargs round trip (known finding C17-kwargs-roundtrip while it is open): checked in 1 run of 8
    case = {'ops': ops_, 'threaded': threaded, 'rt': rng.random() < 0.125}
    if threaded:
        case['sched_seed'] = rng.getrandbits(48)
        case['p'] = rng.choice([0.05, 0.2, 0.5])
    return case


# ------------------------------------------------------------------ execution
def _construct(kw, order):
    from beartype import BeartypeConf
    args = {}
    for name in order:
        args[name] = _value(kw[name])
    return BeartypeConf(**args)


def _outcome(fn):
    from beartype.roar import BeartypeConfParamException, BeartypeException
    try:
        return 'ok', fn()
    except BeartypeConfParamException as e:
        return 'param_exc', e
    except BeartypeException as e:
        return 'beartype_exc:' + type(e).__name__, e
    except Exception as e:      # noqa
        return 'bare:' + type(e).__name__, e


def execute(case):
    import warnings
    from sim import boot
    boot.SAMPLER.reset()
    os.environ.pop('BEARTYPE_IS_COLOR', None)
    if case.get('threaded'):
        return _execute_threaded(case)
    env_color = None
    table = {}          # model: typed key -> first object
    made = []           # (key, kw, conf)
    probes = {k: 0 for k in PROBES}
    viol = None
    log = []
    from beartype import BeartypeConf
    with warnings.catch_warnings():
        warnings.simplefilter('ignore')
        for i, op in enumerate(case['ops']):
            if op['op'] == 'env':
                if op['v'] is None:
                    os.environ.pop('BEARTYPE_IS_COLOR', None)
                    env_color = None
                else:
                    os.environ['BEARTYPE_IS_COLOR'] = op['v']
                    env_color = {'True': True, 'False': False, 'None': None}[op['v']]
                    if op['v'] == 'None':
                        env_color = 'env-None'
                probes['env_faults'] += 1
                continue
            kw = op['kw']
            ec = env_color
            verdict = model_validate(kw, ec)
            kinds = [_classify(n, t) for n, t in kw.items()]
            alike = any(_is_alike(n, t) for n, t in kw.items())
            if alike:
                probes['lookalike_values'] += 1
                if made:
                    probes['invalid_after_equal_valid'] += 1
            if 'unhashable-valid' in kinds or any(isinstance(t, str) and t.startswith('D:') for t in kw.values()) \
                    or any(isinstance(t, list) for t in kw.values()):
                probes['unhashable_values'] += 1
            st, val = _outcome(lambda: _construct(kw, op['order']))
            log.append([i, st])
            if st.startswith('bare:') or st.startswith('beartype_exc:'):
                viol = ('unexpected_exception', 'step %d BeartypeConf(%r) raised %s: %s' % (i, kw, st, str(val)[:200]),
                        st + ':' + _which_bad(kw))
                break
            if verdict == 'invalid':
                if st == 'ok':
                    viol = ('invalid_accepted', 'step %d BeartypeConf(%r) accepted an invalid value (returned %r)' % (i, kw, val),
                            'invalid_accepted:' + _which_bad(kw))
                    break
                continue
            if verdict == 'either' and st != 'ok':
                continue
            if st != 'ok':
                viol = ('valid_rejected', 'step %d BeartypeConf(%r) rejected valid values: %s' % (i, kw, str(val)[:200]),
                        'valid_rejected:' + ','.join(sorted(kw)))
                break
            conf = val
            key = model_key(kw, ec)
            first = table.setdefault(key, conf)
            if conf is not first:
                viol = ('not_memoised', 'step %d BeartypeConf(%r) is not the object created earlier for equal arguments' % (i, kw), 'not_memoised')
                break
            for k2, kw2, c2 in made:
                same = (k2 == key)
                if same != (c2 is conf) or same != (c2 == conf) or ((c2 == conf) and hash(c2) != hash(conf)):
                    viol = ('eq_identity_mismatch', 'step %d: %r vs %r: model_same=%s is=%s eq=%s hash_eq=%s' % (
                        i, kw, kw2, same, c2 is conf, c2 == conf, hash(c2) == hash(conf)), 'eq_identity_mismatch')
                    break
            if viol:
                break
            made.append((key, kw, conf))
            # read-back
            rb = _readback(conf, kw, ec)
            if rb:
                viol = ('readback', 'step %d BeartypeConf(%r): %s' % (i, kw, rb), 'readback:' + rb.split(' ')[0])
                break
            # kwargs round trip
            if not case.get('rt', True):
                continue
            probes['roundtrips'] += 1
            st2, val2 = _outcome(lambda: BeartypeConf(**conf.kwargs))
            if st2 != 'ok' or val2 is not conf:
                viol = ('kwargs_roundtrip', 'step %d: BeartypeConf(**conf.kwargs) is not conf for conf=BeartypeConf(%r) (%s, ==: %s)' % (
                    i, kw, st2, (val2 == conf) if st2 == 'ok' else None), 'kwargs_roundtrip')
                break
    os.environ.pop('BEARTYPE_IS_COLOR', None)
    nontrivial = bool(probes['lookalike_values'] or probes['env_faults'] or probes['unhashable_values']
                      or any(model_validate(o['kw'], None) != 'ok' for o in case['ops'] if o['op'] == 'new'))
    out = {'digest': kernel.stable_hash(case['ops']), 'nontrivial': nontrivial, 'probes': probes,
           'stats': {'constructions': len(log), 'env': probes['env_faults']}, 'violation': None}
    if viol:
        out['violation'] = {'kind': viol[0], 'detail': viol[1], 'key': viol[2]}
    return out


def _is_alike(name, tok):
    p = POOLS[OPT_POOL[name]]
    return any(tok == a and type(tok) is type(a) for a in p['alike'])


def _which_bad(kw):
    bad = sorted('%s=%r' % (n, t) for n, t in kw.items() if _classify(n, t) != 'valid')
    return ','.join(bad)[:120]


def _readback(conf, kw, env_color):
    for name, tok in kw.items():
        v = _value(tok)
        got = getattr(conf, name)
        if name == 'is_color':
            exp = v if env_color is None else (None if env_color == 'env-None' else env_color)
            if got is not exp:
                return 'is_color read back %r, expected %r' % (got, exp)
        elif name in ('violation_door_type', 'violation_param_type', 'violation_return_type'):
            if v is not None and got is not v:
                return '%s read back %r, passed %r' % (name, got, v)
        elif name == 'hint_overrides':
            if kw.get('is_pep484_tower') is True:
                if not all(got.get(k) == x for k, x in v.items()):
                    return 'hint_overrides lost entries under the tower option'
            elif got != v:
                return 'hint_overrides read back %r, passed %r' % (got, v)
        elif name == 'warning_cls_on_decorator_exception':
            if got is not v:
                return '%s read back %r, passed %r' % (name, got, v)
        else:
            if got != v or type(got) is not type(v):
                return '%s read back %r, passed %r' % (name, got, v)
    if 'violation_type' in kw and _value(kw['violation_type']) is not None:
        vt = _value(kw['violation_type'])
        for n in ('violation_door_type', 'violation_param_type', 'violation_return_type'):
            if kw.get(n) is None and getattr(conf, n) is not vt:
                return '%s does not default to violation_type' % n
    return None


def _execute_threaded(case):
    """Two threads construct the same sequence of (valid) configurations: identical objects expected."""
    from sim import sched
    news = [o for o in case['ops'] if o['op'] == 'new' and model_validate(o['kw'], None) == 'ok'][:4]
    res = [[], []]

    def mk(ti):
        def body():
            for o in news:
                st, val = _outcome(lambda: _construct(o['kw'], o['order']))
                res[ti].append((st, val))
        return body
    s = sched.Scheduler({'kind': 'uniform', 'p': case.get('p', 0.2)} if case.get('switches') is None
                        else {'kind': 'replay', 'switches': case['switches']},
                        kernel.stream(case['sched_seed'], 'sched'), step_cap=100000)
    import warnings
    with warnings.catch_warnings():
        warnings.simplefilter('ignore')
        tasks = s.run([mk(0), mk(1)])
    viol = None
    if s.deadlock is not None:
        viol = ('deadlock', repr(s.deadlock), 'deadlock')
    for t in tasks:
        if t.error is not None and viol is None:
            viol = ('task_error', repr(t.error)[:300], 'task_error')
    if viol is None:
        for j, ((s0, v0), (s1, v1)) in enumerate(zip(res[0], res[1])):
            if s0 != 'ok' or s1 != 'ok':
                viol = ('valid_rejected', 'threaded construction %d of %r: %s / %s' % (j, news[j]['kw'], s0, s1), 'threaded_rejected')
                break
            if v0 is not v1:
                viol = ('not_memoised', 'two threads got distinct objects for BeartypeConf(%r)' % (news[j]['kw'],), 'threaded_not_memoised')
                break
    out = {'digest': '%012x' % s.digest, 'nontrivial': s.stats['preempt'] > 0, 'steps': s.step,
           'probes': {'threaded_runs': 1}, 'stats': {'preempt': s.stats['preempt'], 'lock_contended': s.stats['lock_contended']},
           'record': {'switches': [list(x) for x in s.switches]}, 'violation': None,
           'poisoned': s.deadlock is not None}
    if viol:
        out['violation'] = {'kind': viol[0], 'detail': viol[1], 'key': viol[2]}
    return out


# ------------------------------------------------------------------ shrinking
def shrink(case, violation):
    ops_ = case['ops']
    for cand in kernel.drop_chunks(ops_, 1):
        c = dict(case)
        c['ops'] = cand
        c.pop('switches', None)
        yield c
    for i, o in enumerate(ops_):
        if o['op'] == 'new' and len(o['kw']) > 1:
            for name in sorted(o['kw']):
                kw = {k: v for k, v in o['kw'].items() if k != name}
                c = dict(case)
                c['ops'] = ops_[:i] + [{'op': 'new', 'kw': kw, 'order': [x for x in o['order'] if x != name]}] + ops_[i + 1:]
                c.pop('switches', None)
                yield c


# ------------------------------------------------------------------ known findings
def _sig_roundtrip(case, v):
    return v.get('kind') == 'kwargs_roundtrip'


def _sig_unhashable(case, v):
    return v.get('kind') == 'unexpected_exception' and v.get('key', '').startswith('bare:TypeError') and (
        'L:' in v.get('key', '') or 'D:' in v.get('key', '') or '[]' in v.get('key', ''))


def _sig_lookalike(case, v):
    return v.get('kind') == 'invalid_accepted'


SIGNATURES = {'kwargs_roundtrip': _sig_roundtrip, 'unhashable_option': _sig_unhashable, 'lookalike_accepted': _sig_lookalike}


def describe(case):
    return {'ops': case['ops'][:10], 'threaded': case.get('threaded', False)}
