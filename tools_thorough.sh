#!/bin/bash
# Run the thorough tier of every check, one after the other (evidence to a scratch dir); one summary line per check.
IDS=${IDS:-"C15 C16 C14 C17 C06 C08 C03 C01 C02 C18 C07 C11 C09 C10"}
OUT=${OUT:-/tmp/verif-thorough}
mkdir -p $OUT
for p in $IDS; do
  VERIF_SEED=${SEED:-21} VERIF_EVIDENCE_DIR=$OUT/ev timeout 3000 /venv/bin/python -B /verif/check.py $p --tier thorough > $OUT/$p.log 2>&1
  echo "$p exit=$? $(grep -c '^VIOLATION' $OUT/$p.log) violations; $(tail -1 $OUT/$p.log | cut -c1-200)"
done
