#!/bin/bash
# Run the pinned test suite against given /repo commits, each in its own scratch worktree (removed afterwards).
# Usage: tools_fix_tests.sh <commit>...   -> /tmp/pytest_commit_<sha>.log, summary on stdout
run_one() {
  c=$1; wt=/tmp/wt_fixtest_$c
  git -C /repo worktree remove --force $wt >/dev/null 2>&1
  git -C /repo worktree add --detach $wt $c >/dev/null 2>&1 || { echo "$c worktree failed"; return; }
  (cd $wt && timeout 3000 /venv/bin/python -m pytest -ra -q -p no:cacheprovider --timeout=900 --continue-on-collection-errors > /tmp/pytest_commit_$c.log 2>&1)
  git -C /repo worktree remove --force $wt >/dev/null 2>&1
  echo "$c: $(tail -n 1 /tmp/pytest_commit_$c.log) failed-set-md5=$(grep '^FAILED' /tmp/pytest_commit_$c.log | cut -d' ' -f2 | sort | md5sum | cut -c1-8)"
}
export -f run_one
printf '%s\n' "$@" | xargs -P 5 -I{} bash -c 'run_one {}'
