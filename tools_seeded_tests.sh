#!/bin/bash
# For every kept seeded change: scratch worktree of /repo HEAD, apply the patch, run the pinned test suite, record the
# summary line in seeded/<id>/tests.txt, remove the worktree. Usage: tools_seeded_tests.sh [ids...]
cd /verif/seeded || exit 1
ids=${@:-$(ls)}
run_one() {
  id=$1; wt=/tmp/wt_seedtest_$id
  git -C /repo worktree remove --force $wt >/dev/null 2>&1
  git -C /repo worktree add --detach $wt HEAD >/dev/null 2>&1 || { echo "$id worktree failed"; return; }
  if git -C $wt apply /verif/seeded/$id/patch.diff 2>/tmp/seedtest_$id.err; then
    (cd $wt && timeout 1800 /venv/bin/python -m pytest -ra -q -p no:cacheprovider --timeout=900 --continue-on-collection-errors > /tmp/seedtest_$id.log 2>&1)
    { echo "HEAD $(git -C /repo rev-parse --short HEAD) + patch.diff: $(tail -1 /tmp/seedtest_$id.log)"; grep '^FAILED' /tmp/seedtest_$id.log | cut -d' ' -f2 | sort; } > /verif/seeded/$id/tests.txt
  else
    echo "patch does not apply to HEAD $(git -C /repo rev-parse --short HEAD): $(head -1 /tmp/seedtest_$id.err)" > /verif/seeded/$id/tests.txt
  fi
  git -C /repo worktree remove --force $wt >/dev/null 2>&1
  rm -f /tmp/seedtest_$id.log /tmp/seedtest_$id.err
  echo "$id: $(head -1 /verif/seeded/$id/tests.txt)"
}
export -f run_one
printf '%s\n' $ids | xargs -P 5 -I{} bash -c 'run_one {}'
