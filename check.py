#!/venv/bin/python -B
"""Entry point of every check.

    check.py C15 --tier quick|thorough      explore, write evidence/C15.json
    check.py C15 --replay PATH              re-run one recorded case
    check.py selftest [--quick]             determinism + sensitivity self-tests
    check.py setup                          verify the environment

VERIF_SEED selects the master seed (default 0); VERIF_TIER is honoured when
--tier is absent; VERIF_JOBS sets the number of worker processes.
"""
import os
import sys

HERE = os.path.dirname(os.path.abspath(__file__))


def _reexec():
    # One integer decides everything: pin str hashing so that set/dict orders
    # that depend on it repeat, and never write bytecode into /repo.
    if os.environ.get('VERIF_KEEP_HASHSEED') == '1' and os.environ.get('VERIF_REEXEC') == '1':
        return
    if os.environ.get('PYTHONHASHSEED') != '0' or os.environ.get('VERIF_REEXEC') != '1' or os.environ.get('MALLOC_ARENA_MAX') != '1':
        env = dict(os.environ)
        env['PYTHONHASHSEED'] = '0'
        env['VERIF_REEXEC'] = '1'
        env['PYTHONDONTWRITEBYTECODE'] = '1'
        # One malloc arena for all threads: glibc otherwise hands every new thread an arena chosen by what exiting threads of
        # the previous run have given back *so far* (real timing), and objects too large for pymalloc - type objects such as
        # beartype's forward-reference proxy classes created inside task threads - get timing-dependent addresses, hence
        # hashes, hence memo-table probe orders, hence event digests.
        env['MALLOC_ARENA_MAX'] = '1'
        env['GLIBC_TUNABLES'] = 'glibc.malloc.tcache_count=0'      # (no per-thread cache flushed back at thread exit)
        env.pop('BEARTYPE_IS_COLOR', None)
        # Address-space randomisation off (inherited by every worker and child): beartype iterates
        # sets of types, whose order follows object addresses, so event digests repeat only then.
        try:
            import ctypes
            libc = ctypes.CDLL(None, use_errno=True)
            ADDR_NO_RANDOMIZE = 0x0040000
            cur = libc.personality(0xffffffff)
            if cur != -1 and libc.personality(cur | ADDR_NO_RANDOMIZE) != -1:
                env['VERIF_NOASLR'] = '1'
        except Exception:
            pass
        os.execve(sys.executable, [sys.executable, '-B', os.path.abspath(__file__)] + sys.argv[1:], env)


def main(argv):
    if not argv:
        print(__doc__)
        return 2
    _reexec()
    sys.path.insert(0, HERE)
    cmd = argv[0]
    if cmd == '--worker':
        from sim import kernel
        return kernel.worker_main(argv[1:])
    if cmd == 'setup':
        from sim import boot
        boot.boot()
        import beartype
        os.makedirs(os.path.join(HERE, 'evidence'), exist_ok=True)
        os.makedirs(os.path.join(HERE, 'replays'), exist_ok=True)
        print('ok: beartype %s from %s; sim locks: %s' % (
            beartype.__version__, beartype.__file__, ', '.join(boot.sim_locks_report())))
        return 0
    if cmd == 'selftest':
        from sim import boot
        boot.boot()
        from sim import selftest
        return selftest.main(argv[1:])
    prop = cmd.upper()
    tier = os.environ.get('VERIF_TIER') or 'quick'
    replay = None
    i = 1
    while i < len(argv):
        a = argv[i]
        if a == '--tier':
            tier = argv[i + 1]
            i += 2
        elif a == '--replay':
            replay = argv[i + 1]
            i += 2
        else:
            print('unknown argument', a)
            return 2
    seed = int(os.environ.get('VERIF_SEED', '0') or 0)
    from sim import boot
    boot.boot()
    from sim import kernel, state, selftest
    selftest.apply_mutant_from_env()
    state.snapshot()
    if replay:
        return kernel.replay(prop, replay)
    return kernel.Driver(prop, tier, seed).main()


if __name__ == '__main__':
    sys.exit(main(sys.argv[1:]))
