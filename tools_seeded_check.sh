#!/bin/bash
# Sensitivity regression: every kept seeded change, applied to a scratch worktree of /repo HEAD, must make the quick tier
# of its check exit 1 with a VIOLATION line. Nothing under /repo is touched. Usage: tools_seeded_check.sh [ids...]
cd /verif/seeded || exit 1
ids=${@:-$(ls)}
bad=0
for id in $ids; do
  prop=${id%%-*}
  # (a change seeded against one property may be caught by the check of another: meta.json names it then)
  alt=$(python3 -c "import json,sys; print(json.load(open('/verif/seeded/$id/meta.json')).get('check_property',''))" 2>/dev/null)
  [ -n "$alt" ] && prop=$alt
  wt=/tmp/wt_seedcheck_$id
  git -C /repo worktree remove --force $wt >/dev/null 2>&1
  git -C /repo worktree add --detach $wt HEAD >/dev/null 2>&1
  if ! git -C $wt apply /verif/seeded/$id/patch.diff 2>/dev/null; then
    echo "$id: patch does not apply to HEAD" | tee /verif/seeded/$id/check.txt; git -C /repo worktree remove --force $wt; continue
  fi
  out=$(VERIF_REPO=$wt VERIF_SEED=${SEED:-0} VERIF_EVIDENCE_DIR=/tmp/ev_seedcheck timeout 1500 /venv/bin/python -B /verif/check.py $prop --tier quick 2>&1)
  rc=$?
  nv=$(echo "$out" | grep -c '^VIOLATION')
  first=$(echo "$out" | grep -A1 '^VIOLATION' | sed -n 2p | cut -c1-220)
  git -C /repo worktree remove --force $wt >/dev/null 2>&1
  res="DETECTED"; [ $rc -ne 1 -o $nv -eq 0 ] && { res="MISSED"; bad=1; }
  echo "$id: $res (check $prop quick, seed ${SEED:-0}, /repo $(git -C /repo rev-parse --short HEAD), exit $rc, $nv VIOLATION lines) $first" | tee /verif/seeded/$id/check.txt
done
rm -rf /tmp/ev_seedcheck
exit $bad
