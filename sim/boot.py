"""Pristine boot: import beartype from /repo's working tree with every seam in place.

After ``boot()``:
* every lock beartype created is a ``SimLock`` (real lock outside simulation);
* the sampler seam is installed: ``codemain.getrandbits`` (and the copy used by
  ``infer_hint``) is ``sampler`` below, which returns queued draws when the
  simulator queued any and a value from a seeded ``random.Random`` otherwise;
* all beartype submodules are imported (no lazy import can block in a
  simulated thread), nothing else has been executed.
"""
import importlib
import os
import pkgutil
import random
import sys
import threading
import warnings

from . import sched

REPO = os.environ.get('VERIF_REPO', '/repo')

_BOOTED = False


class Sampler:
    """The only source of sampler draws once the seam is installed."""

    def __init__(self):
        self.queue = []          # draws to hand out next (FIFO)
        self.fallback = random.Random(0)
        self.consumed = 0
        self.log = None          # list to append handed-out draws to, or None
        self.sticky = None       # if not None: hand out this value for every draw

    def __call__(self, nbits):
        self.consumed += 1
        if self.sticky is not None:
            v = self.sticky
        elif self.queue:
            v = self.queue.pop(0)
        else:
            v = self.fallback.getrandbits(nbits)
        v &= (1 << nbits) - 1
        if self.log is not None:
            self.log.append(v)
        return v

    def reset(self, seed=0):
        self.queue = []
        self.fallback = random.Random(seed)
        self.consumed = 0
        self.log = None
        self.sticky = None


SAMPLER = Sampler()


def sampler(nbits):
    return SAMPLER(nbits)


def boot(import_all=True):
    global _BOOTED
    if _BOOTED:
        return
    _BOOTED = True
    # The interpreter asks the thread that holds the GIL to give it up after this interval of real time. With the default of
    # 5 ms, *when* a freshly started (or finishing) simulated thread and the thread that started it alternate depends on the
    # machine load, and so do the allocation order and the addresses of what they allocate. With an interval nobody reaches,
    # the GIL changes hands only where a thread blocks - baton, lock, join - which are all decided by the simulator.
    sys.setswitchinterval(3600.0)
    if REPO not in sys.path:
        sys.path.insert(0, REPO)
    # Pre-import the stdlib modules beartype pulls in lazily, *before* the lock
    # factories are replaced, so that only beartype binds the simulator's.
    for name in ('__future__', 'marshal', 'asyncio', 'concurrent.futures', 'logging', 'queue', 'functools',
                 'typing', 'collections.abc', 'contextlib', 'inspect', 'ast',
                 'importlib.machinery', 'importlib.util', 'importlib.abc',
                 'weakref', 'enum', 'dataclasses', 're', 'types', 'numbers',
                 'warnings', 'traceback', 'linecache', 'tokenize', 'pathlib',
                 'subprocess', 'multiprocessing', 'argparse', 'io', 'os',
                 'random', 'itertools', 'operator', 'abc', 'copy', 'pickle',
                 'decimal', 'fractions', 'ipaddress', 'uuid', 'datetime',
                 'tempfile', 'shutil', 'json', 'textwrap', 'string', 'codecs',
                 'platform', 'sysconfig', 'zipimport', 'typing_extensions',
                 'importlib.resources', 'importlib.metadata', 'struct', 'socket',
                 'selectors', 'signal', 'unittest.mock', 'pprint', 'reprlib',
                 'email.message', 'zipfile', 'csv', 'gzip', 'bz2', 'lzma',
                 ):
        try:
            importlib.import_module(name)
        except Exception:
            pass
    real_lock, real_rlock = threading.Lock, threading.RLock
    threading.Lock = sched.sim_lock_factory
    threading.RLock = sched.sim_rlock_factory
    try:
        import beartype  # noqa
        assert os.path.realpath(beartype.__file__).startswith(os.path.realpath(REPO) + os.sep), beartype.__file__
        if import_all:
            with warnings.catch_warnings():
                warnings.simplefilter('ignore')
                for m in pkgutil.walk_packages(beartype.__path__, 'beartype.', onerror=lambda n: None):
                    try:
                        importlib.import_module(m.name)
                    except BaseException:
                        pass
    finally:
        threading.Lock, threading.RLock = real_lock, real_rlock
    _fixup_lock_types(real_lock, real_rlock)
    install_sampler()


def _fixup_lock_types(real_lock, real_rlock):
    """beartype records the *types* of threading's locks (usable as hints);
    put the real ones back so that only lock *instances* are simulated."""
    real_lt = type(real_lock())
    real_rt = type(real_rlock())
    for name, mod in list(sys.modules.items()):
        if not name.startswith('beartype') or mod is None:
            continue
        d = getattr(mod, '__dict__', None)
        if not d:
            continue
        for k, v in list(d.items()):
            if v is sched.SimLock:
                d[k] = real_lt
            elif v is sched.SimRLock:
                d[k] = real_rt
            elif v is sched.sim_lock_factory and k == 'Lock':
                pass        # factories stay: new locks made later are simulated too
    try:
        from beartype._check.convert._reduce._nonpep import rednonpeptype as r
        tab = r._HINT_NONPEP_SINGLETON_TO_REDUCTION
        tab.pop(sched.sim_lock_factory, None)
        tab.pop(sched.sim_rlock_factory, None)
        tab[real_rlock] = real_rt
        if not isinstance(real_lock, type):
            tab[real_lock] = real_lt
    except Exception:
        pass


def install_sampler():
    import beartype._check.code.codemain as cm
    cm.getrandbits = sampler
    try:
        import beartype._util.kind.integer.utilintget as ui
        if hasattr(ui, 'getrandbits'):
            ui.getrandbits = sampler
    except Exception:
        pass
    # Any module that did ``from random import getrandbits`` inside beartype.
    for name, mod in list(sys.modules.items()):
        if name.startswith('beartype') and mod is not None:
            d = getattr(mod, '__dict__', {})
            if d.get('getrandbits') is random.getrandbits:
                d['getrandbits'] = sampler


def sim_locks_report():
    """Names of beartype module globals that are simulator locks (self-check)."""
    out = []
    for name, mod in sorted(sys.modules.items()):
        if name.startswith('beartype') and mod is not None:
            for k, v in getattr(mod, '__dict__', {}).items():
                if isinstance(v, sched.SimLockBase):
                    out.append('%s.%s' % (name, k))
    return out
