"""Shared API-operation vocabulary (JSON) used by the history and thread engines.

An operation is a JSON dict; ``run_op`` executes it against the real public API
and returns a normalised, JSON-able outcome that never contains ``id()`` values
or addresses.
"""
import _thread
import warnings

from . import hints as H


class UserViolation(Exception):
    pass


class UserWarningV(UserWarning):
    pass


def build_conf(kw):
    """Configuration DSL -> BeartypeConf. ``kw`` None -> default configuration."""
    from beartype import BeartypeConf, BeartypeStrategy
    if not kw:
        return BeartypeConf()
    a = {}
    for k, v in kw.items():
        if k == 'strategy':
            a['strategy'] = getattr(BeartypeStrategy, v)
        elif k == 'tower':
            a['is_pep484_tower'] = v
        elif k == 'vt':
            a['violation_type'] = VT[v]
        elif k == 'vdoor':
            a['violation_door_type'] = VT[v]
        elif k == 'vparam':
            a['violation_param_type'] = VT[v]
        elif k == 'vreturn':
            a['violation_return_type'] = VT[v]
        elif k == 'verbosity':
            from beartype import BeartypeViolationVerbosity
            a['violation_verbosity'] = getattr(BeartypeViolationVerbosity, v)
        elif k == 'overrides':
            from beartype import BeartypeHintOverrides
            a['hint_overrides'] = BeartypeHintOverrides(
                {H.build_hint(x): H.build_hint(y) for x, y in v})
        elif k == 'skip':
            a['claw_skip_package_names'] = tuple(v)
        elif k == 'decor_func':
            from beartype import BeartypeDecorPlace
            a['claw_decor_place_func'] = getattr(BeartypeDecorPlace, v)
        elif k == 'decor_type':
            from beartype import BeartypeDecorPlace
            a['claw_decor_place_type'] = getattr(BeartypeDecorPlace, v)
        else:
            a[k] = v
    return BeartypeConf(**a)


VT = {
    'warn': UserWarningV,
    'userwarning': UserWarning,
    'exc': UserViolation,
    'valueerror': ValueError,
    'typeerror': TypeError,
}


def exc_outcome(e):
    import beartype.roar as roar
    cls = type(e)
    fam = 'other'
    if isinstance(e, roar.BeartypeCallHintViolation):
        fam = 'violation'
    elif isinstance(e, roar.BeartypeException):
        fam = 'beartype'
    elif isinstance(e, (UserViolation, ValueError)) and 'violates' in str(e)[:2000]:
        fam = 'violation'
    return ['exc', cls.__module__.split('.')[0] + '.' + cls.__name__, fam]


def conf_is_warn(kw):
    return bool(kw) and any(kw.get(k) in ('warn', 'userwarning') for k in ('vt', 'vdoor', 'vparam', 'vreturn'))


class WarnRecorder:
    """Thread-neutral warning recorder installed at ``warnings.showwarning`` level."""

    def __init__(self):
        self.by_thread = {}
        self.other = 0

    def install(self):
        warnings.simplefilter('always')
        self._orig_showwarning = warnings.showwarning
        warnings.showwarning = self._show
        return self

    def _show(self, message, category, filename, lineno, file=None, line=None):
        # Only configured violation warnings are part of an operation's answer;
        # once-per-hint deprecation notices depend on who asks first by design.
        if not issubclass(category, (UserWarningV, UserWarning)) or issubclass(category, DeprecationWarning):
            self.other += 1
            return
        if category.__module__.startswith('beartype.roar'):
            self.other += 1
            return
        self.by_thread.setdefault(_thread.get_ident(), []).append(category.__name__)

    def take(self):
        return self.by_thread.pop(_thread.get_ident(), [])


def make_decorated(hint, conf, pos='param'):
    """Identity function annotated with ``hint`` at the chosen position."""
    from beartype import beartype
    if pos == 'param':
        def f(a):
            return a
        f.__annotations__ = {'a': hint}
    elif pos == 'return':
        def f(a):
            return a
        f.__annotations__ = {'return': hint}
    else:
        def f(a):
            return a
        f.__annotations__ = {'a': hint, 'return': hint}
    return beartype(conf=conf)(f)


def beartype_hook_count():
    """Number of beartype path hooks in sys.path_hooks (FileFinder.path_hook closures over beartype's loader)."""
    import sys
    n = 0
    for h in sys.path_hooks:
        found = False
        for c in getattr(h, '__closure__', None) or ():
            try:
                if 'Beartype' in repr(c.cell_contents):
                    found = True
            except ValueError:
                pass
        if found or 'beartype' in (getattr(h, '__module__', '') or ''):
            n += 1
    return n
