"""Grammar of hint-ish objects for C11: valid, exotic, unsupported, malformed and non-hint atoms under valid constructors.

Every atom / constructor is named, so that a case is JSON ({'a': name} | {'c': name, 'k': [children]}) and rebuilt
identically in any process. Building may fail inside Python's own typing module (then there is nothing to hand to
beartype): build() raises Unbuildable.
"""
import abc
import collections
import collections.abc as cabc
import dataclasses
import enum
import sys
import typing
from typing import (Annotated, Any, Callable, ClassVar, Final, Generic, Literal, NamedTuple, NewType, Optional, Protocol,
                    TypedDict, TypeVar, Union, runtime_checkable)


class Unbuildable(Exception):
    pass


class Plain:
    pass


class AbstractK(abc.ABC):
    @abc.abstractmethod
    def m(self): ...


class EnumK(enum.Enum):
    A = 1
    B = 2


class IntEnumK(enum.IntEnum):
    A = 1


@dataclasses.dataclass
class DataK:
    x: int = 0


class NamedTupleK(NamedTuple):
    x: int = 0


class TypedDictK(TypedDict):
    x: int


@runtime_checkable
class MethProto(Protocol):
    def __len__(self) -> int: ...


@runtime_checkable
class DataProto(Protocol):
    x: int


class NonRuntimeProto(Protocol):
    def m(self) -> int: ...


class DataProtoImpl:
    x = 1


T = TypeVar('T')
TDataProto = TypeVar('TDataProto', bound=DataProto)
TNonRuntime = TypeVar('TNonRuntime', bound=NonRuntimeProto)
TConstr = TypeVar('TConstr', int, DataProto)
P = typing.ParamSpec('P')
Ts = typing.TypeVarTuple('Ts')


# type variables whose bound / constraints / default are not what a bound should be (typing accepts all of these), and generics
# parametrised by them: subscripting such a generic by a class makes beartype compare the class with the bound
TJunkBound = TypeVar('TJunkBound', bound=42)
TJunkBoundList = TypeVar('TJunkBoundList', bound=[int])
TJunkConstr = TypeVar('TJunkConstr', 42, 43)
TMixedConstr = TypeVar('TMixedConstr', int, 42)
TStrBound = TypeVar('TStrBound', bound='Plain')
TUnionBound = TypeVar('TUnionBound', bound=Union[int, str])
TSubscrBound = TypeVar('TSubscrBound', bound=list[int])
TTupleBound = TypeVar('TTupleBound', bound=...)


class GenericK(Generic[T]):
    pass


# user generics whose pseudo-superclass is another container hint (fixed-length tuple, variadic tuple, mapping, nested): what
# is_subhint() has to line up, argument by argument, with the hint on the other side
class PairTuple(tuple[int, str]):
    pass


class PairTupleT(tuple[T, str]):
    pass


class TripleTuple(tuple[int, int, int]):
    pass


class VarTupleSub(tuple[int, ...]):
    pass


class DictSub(dict[str, T]):
    pass


class ListOfListSub(list[list[T]]):
    pass


class BoxJunk(Generic[TJunkBound]):
    pass


class BoxJunkList(Generic[TJunkBoundList]):
    pass


class BoxJunkConstr(Generic[TJunkConstr]):
    pass


class BoxMixedConstr(Generic[TMixedConstr]):
    pass


class BoxStrBound(Generic[TStrBound]):
    pass


class BoxUnionBound(Generic[TUnionBound]):
    pass


class BoxSubscrBound(Generic[TSubscrBound]):
    pass


class BoxTupleBound(list[TTupleBound]):
    pass


class GenericProto(Generic[TDataProto]):
    pass


class ListSub(list[T]):
    pass


@runtime_checkable
class ProtoGeneric(Protocol[T]):
    def get(self) -> T: ...


def _func(a):
    return a


def _pred(x):
    return True


NT_int = NewType('NT_int', int)

# Names that string hints ('FwdAny', Optional['FwdObject'], ...) refer to: bound here and, identically, in props/c11.py, the
# module whose functions pass the hints to beartype (string hints are resolved against the calling scope)
FwdAny = Any
FwdObject = object
FwdInt = int
FwdListInt = list[int]
FwdOptional = Optional[int]
FWD_NAMES = {'FwdAny': FwdAny, 'FwdObject': FwdObject, 'FwdInt': FwdInt, 'FwdListInt': FwdListInt, 'FwdOptional': FwdOptional}

ATOMS = {
    # strings naming an ignorable hint, a class, a subscripted hint, a union; a string naming nothing
    'str_FwdAny': lambda: 'FwdAny', 'str_FwdObject': lambda: 'FwdObject', 'str_FwdInt': lambda: 'FwdInt', 'str_FwdListInt': lambda: 'FwdListInt',
    'str_FwdOptional': lambda: 'FwdOptional', 'str_FwdNothing': lambda: 'FwdNothingOfThatName', 'str_expr': lambda: 'list[FwdAny] | None',
    # strings whose *compilation* overflows (RecursionError / MemoryError from the parser), or that evaluate to nonsense
    'str_long_union': lambda: 'int|' * 3000 + 'str', 'str_attr_chain': lambda: 'int' + '.real' * 20000, 'str_minus_chain': lambda: '-' * 20000 + '1',
    'str_division': lambda: '1/0', 'str_subscript_int': lambda: 'int[str]', 'str_call': lambda: "int('x')",
    # ordinary
    'int': lambda: int, 'str': lambda: str, 'float': lambda: float, 'bool': lambda: bool, 'NoneType': lambda: type(None),
    'None': lambda: None, 'object': lambda: object, 'list': lambda: list, 'dict': lambda: dict, 'tuple': lambda: tuple,
    'type': lambda: type, 'bytes': lambda: bytes, 'complex': lambda: complex,
    # user classes of many kinds
    'Plain': lambda: Plain, 'AbstractK': lambda: AbstractK, 'EnumK': lambda: EnumK, 'IntEnumK': lambda: IntEnumK,
    'DataK': lambda: DataK, 'NamedTupleK': lambda: NamedTupleK, 'TypedDictK': lambda: TypedDictK, 'MethProto': lambda: MethProto,
    'DataProto': lambda: DataProto, 'NonRuntimeProto': lambda: NonRuntimeProto, 'GenericK': lambda: GenericK,
    'GenericK_int': lambda: GenericK[int], 'GenericK_T': lambda: GenericK[T], 'ProtoGeneric_int': lambda: ProtoGeneric[int],
    'ListSub_int': lambda: ListSub[int], 'ListSub': lambda: ListSub, 'GenericProto': lambda: GenericProto,
    'GenericProto_impl': lambda: GenericProto[DataProtoImpl], 'NT_int': lambda: NT_int,
    'PairTuple': lambda: PairTuple, 'PairTupleT_int': lambda: PairTupleT[int], 'PairTupleT': lambda: PairTupleT, 'TripleTuple': lambda: TripleTuple,
    'VarTupleSub': lambda: VarTupleSub, 'DictSub_int': lambda: DictSub[int], 'ListOfListSub_int': lambda: ListOfListSub[int],
    'tuple_int_var': lambda: tuple[int, ...], 'Tuple_int_var': lambda: typing.Tuple[int, ...], 'tuple_int_str': lambda: tuple[int, str],
    'tuple_int3': lambda: tuple[int, int, int], 'tuple_empty': lambda: tuple[()], 'tuple_object_var': lambda: tuple[object, ...],
    'dict_str_int': lambda: dict[str, int], 'Mapping_str_int': lambda: cabc.Mapping[str, int], 'list_list_int': lambda: list[list[int]],
    'Sequence_int': lambda: cabc.Sequence[int],
    # generics over badly bounded type variables, subscripted by classes
    'BoxJunk_bool': lambda: BoxJunk[bool], 'BoxJunk_T': lambda: BoxJunk[T], 'BoxJunkList_int': lambda: BoxJunkList[int],
    'BoxJunkConstr_int': lambda: BoxJunkConstr[int], 'BoxMixedConstr_str': lambda: BoxMixedConstr[str],
    'BoxStrBound_Plain': lambda: BoxStrBound[Plain], 'BoxStrBound_int': lambda: BoxStrBound[int],
    'BoxUnionBound_int': lambda: BoxUnionBound[int], 'BoxUnionBound_bytes': lambda: BoxUnionBound[bytes],
    'BoxSubscrBound_list': lambda: BoxSubscrBound[list], 'BoxTupleBound_int': lambda: BoxTupleBound[int], 'TJunkBound': lambda: TJunkBound,
    'TJunkConstr': lambda: TJunkConstr, 'TTupleBound': lambda: TTupleBound, 'G695Junk_bool': lambda: _PEP695['G695Junk'][bool],
    'G695Constr_int': lambda: _PEP695['G695Constr'][int], 'Al695Junk_bool': lambda: _PEP695['Al695Junk'][bool],
    'G695Union_int': lambda: _PEP695['G695Union'][int], 'G695Union_bytes': lambda: _PEP695['G695Union'][bytes],
    # typing specials
    'Any': lambda: Any, 'NoReturn': lambda: typing.NoReturn, 'Never': lambda: typing.Never, 'Self': lambda: typing.Self,
    'LiteralString': lambda: typing.LiteralString, 'Final': lambda: Final, 'ClassVar': lambda: ClassVar,
    'TypeAlias': lambda: typing.TypeAlias, 'TypeGuard_int': lambda: typing.TypeGuard[int], 'P': lambda: P, 'P_args': lambda: P.args,
    'P_kwargs': lambda: P.kwargs, 'T': lambda: T, 'TDataProto': lambda: TDataProto, 'TNonRuntime': lambda: TNonRuntime,
    'TConstr': lambda: TConstr, 'Ts': lambda: Ts, 'Unpack_Ts': lambda: typing.Unpack[Ts], 'Required_int': lambda: typing.Required[int],
    'NotRequired_int': lambda: typing.NotRequired[int], 'Hashable': lambda: typing.Hashable, 'Sized': lambda: typing.Sized,
    'Callable_bare': lambda: typing.Callable, 'abcCallable_bare': lambda: cabc.Callable, 'Tuple_bare': lambda: typing.Tuple,
    'List_bare': lambda: typing.List, 'Pattern': lambda: typing.Pattern, 'Pattern_str': lambda: typing.Pattern[str],
    'Match_bytes': lambda: typing.Match[bytes], 'IO': lambda: typing.IO, 'TextIO': lambda: typing.TextIO, 'IO_str': lambda: typing.IO[str],
    'Generic_bare': lambda: typing.Generic, 'Protocol_bare': lambda: typing.Protocol, 'Optional_bare': lambda: typing.Optional,
    'Union_bare': lambda: typing.Union, 'Literal_bare': lambda: typing.Literal, 'Annotated_bare': lambda: typing.Annotated,
    'Type_bare': lambda: typing.Type, 'Concatenate': lambda: typing.Concatenate[int, P], 'SupportsInt': lambda: typing.SupportsInt,
    'SupportsIndex': lambda: typing.SupportsIndex, 'AnyStr': lambda: typing.AnyStr, 'Text': lambda: typing.Text,
    'Awaitable_bare': lambda: cabc.Awaitable, 'Literal_1': lambda: Literal[1],
    'Literal_enum': lambda: Literal[EnumK.A], 'Literal_none': lambda: Literal[None], 'Literal_mixed': lambda: Literal[1, 'a', None, True, b'x'],
    'TypeAliasType': lambda: _type_alias(), 'AlRec': lambda: _PEP695['AlRec'], 'AlRecG_int': lambda: _PEP695['AlRecG'][int],
    'AlG_bare': lambda: _PEP695['AlG'], 'AlFwd': lambda: _PEP695['AlFwd'], 'OrderedDict_bare': lambda: typing.OrderedDict, 'DefaultDict_bare': lambda: typing.DefaultDict,
    # references
    'fwd_int': lambda: typing.ForwardRef('int'), 'fwd_nosuch': lambda: typing.ForwardRef('NoSuchNameAnywhere'),
    's_int': lambda: 'int', 's_nosuch': lambda: 'NoSuchNameAnywhere', 's_list_int': lambda: 'list[int]',
    's_list_nosuch': lambda: 'list[NoSuchNameAnywhere]', 's_syntax': lambda: '1 +', 's_empty': lambda: '', 's_dotted': lambda: 'os.PathLike',
    's_dotted_nosuch': lambda: 'nosuchmodule.NoSuch', 's_space': lambda: ' int ', 's_union': lambda: 'int | str', 's_call': lambda: 'print(1)',
    # non-hints
    'v_3': lambda: 3, 'v_1_5': lambda: 1.5, 'v_bytes': lambda: b'int', 'v_tuple': lambda: (1, 2), 'v_tuple_types': lambda: (int, str),
    'v_list_types': lambda: [int], 'v_dict': lambda: {int: str}, 'v_set': lambda: {int}, 'v_object': lambda: object(),
    'v_lambda': lambda: (lambda x: x), 'v_module': lambda: sys, 'v_ellipsis': lambda: ..., 'v_notimpl': lambda: NotImplemented,
    'v_true': lambda: True, 'v_func': lambda: _func, 'v_method': lambda: Plain().__init__, 'v_range': lambda: range(3),
    'v_tuple_unhashable': lambda: (int, []), 'v_empty_list': lambda: [], 'v_empty_dict': lambda: {},
    'deep_list_100': lambda: _deep(100), 'deep_list_260': lambda: _deep(260), 'wide_tuple_128': lambda: tuple[(list[int],) * 128],
    'wide_union_130': lambda: Union[tuple(list[Literal[i]] for i in range(130))], 'wide_literal_300': lambda: Literal[tuple(range(300))],
    'v_plain_inst': lambda: Plain(), 'v_enum_member': lambda: EnumK.A, 'v_empty_tuple': lambda: (), 'v_property': lambda: property(_func),
}


def _deep(n):
    h = int
    for _ in range(n):
        h = list[h]
    return h


_PEP695 = {}
exec('class G695Junk[T: 42]: pass\nclass G695Constr[T: (42, 43)]: pass\ntype Al695Junk[T: 42] = list[T]\n'
     'class G695Union[T: int | str]: pass\n', _PEP695)
exec('type AlG[T] = list[T]\ntype AlD[K, V] = dict[K, V]\ntype AlRec = list[AlRec] | int\ntype AlRecG[T] = tuple[T, AlRecG[T]] | None\n'
     'type AlFwd = list[NotYetDefinedAnywhere]', _PEP695)


def _type_alias():
    ns = {}
    exec('type AliasInt = int | str', ns)      # PEP 695 (the interpreter is >= 3.12)
    return ns['AliasInt']


def _is():
    from beartype.vale import Is
    return Is[_pred]


_LAMBDA_MOD = []


def _lambda_validators():
    """Is[lambda ...] validators whose lambdas live in a source file on disk (beartype reads the source to describe them):
    an ordinary one, two on one line, one too deeply nested for ast to parse. The module is written to a scratch directory of
    this process and imported once."""
    if not _LAMBDA_MOD:
        import importlib.util
        import os
        import tempfile
        d = tempfile.mkdtemp(prefix='verif_hintjunk_')
        path = os.path.join(d, 'verif_hintjunk_lambdas.py')
        deep = 'x' + ' + 1' * 700
        with open(path, 'w') as f:
            f.write('from beartype.vale import Is\n'
                    'PLAIN = Is[lambda x: x is not None]\n'
                    'TWO_A, TWO_B = Is[lambda x: True], Is[lambda x: bool(x) or True]\n'
                    'DEEP = Is[lambda x: (%s) is not None if isinstance(x, int) else True]\n'
                    'DEEP2 = Is[lambda x: isinstance(x, object) or (%s)]\n' % (deep, deep))
        spec = importlib.util.spec_from_file_location('verif_hintjunk_lambdas', path)
        mod = importlib.util.module_from_spec(spec)
        spec.loader.exec_module(mod)
        _LAMBDA_MOD.append(mod)
    return _LAMBDA_MOD[0]


def _pipe(a, b):
    return a | b


CTORS = {
    'list': (1, lambda a: list[a]), 'List': (1, lambda a: typing.List[a]), 'dict': (2, lambda a, b: dict[a, b]),
    'Dict': (2, lambda a, b: typing.Dict[a, b]), 'tuple_var': (1, lambda a: tuple[a, ...]), 'tuple2': (2, lambda a, b: tuple[a, b]),
    'Tuple2': (2, lambda a, b: typing.Tuple[a, b]), 'tuple1': (1, lambda a: tuple[a]), 'set': (1, lambda a: set[a]),
    'frozenset': (1, lambda a: frozenset[a]), 'Sequence': (1, lambda a: cabc.Sequence[a]), 'Mapping': (2, lambda a, b: cabc.Mapping[a, b]),
    'Iterable': (1, lambda a: cabc.Iterable[a]), 'Optional': (1, lambda a: Optional[a]), 'Union': (2, lambda a, b: Union[a, b]),
    'pipe': (2, _pipe), 'type': (1, lambda a: type[a]), 'Type': (1, lambda a: typing.Type[a]),
    'Annotated_meta': (1, lambda a: Annotated[a, 'meta']), 'Annotated_is': (1, lambda a: Annotated[a, _is()]),
    'Annotated_mixed': (1, lambda a: Annotated[a, 'meta', _is()]), 'Annotated_unhashable': (1, lambda a: Annotated[a, []]),
    'Annotated_dictmeta': (1, lambda a: Annotated[a, {}, _is()]),
    'Annotated_lambda': (1, lambda a: Annotated[a, _lambda_validators().PLAIN]),
    'Annotated_lambda_two': (1, lambda a: Annotated[a, _lambda_validators().TWO_A, _lambda_validators().TWO_B]),
    'Annotated_lambda_deep': (1, lambda a: Annotated[a, _lambda_validators().DEEP]),
    'Annotated_lambda_deep2': (1, lambda a: Annotated[a, ~_lambda_validators().DEEP2 | _lambda_validators().PLAIN]), 'Literal': (1, lambda a: Literal[a]),
    'Callable1': (2, lambda a, b: Callable[[a], b]), 'CallableE': (1, lambda a: Callable[..., a]),
    'abcCallable1': (2, lambda a, b: cabc.Callable[[a], b]), 'GenericK': (1, lambda a: GenericK[a]), 'ListSub': (1, lambda a: ListSub[a]),
    'deque': (1, lambda a: collections.deque[a]), 'Counter': (1, lambda a: collections.Counter[a]),
    'ChainMap': (2, lambda a, b: collections.ChainMap[a, b]), 'Generator': (1, lambda a: cabc.Generator[a, None, None]),
    'Awaitable': (1, lambda a: cabc.Awaitable[a]), 'AsyncIterator': (1, lambda a: cabc.AsyncIterator[a]),
    'ContextManager': (1, lambda a: typing.ContextManager[a]), 'Final': (1, lambda a: Final[a]), 'ClassVar': (1, lambda a: ClassVar[a]),
    'Required': (1, lambda a: typing.Required[a]), 'Unpack': (1, lambda a: typing.Unpack[a]), 'TypeGuard': (1, lambda a: typing.TypeGuard[a]),
    'tuple_unpack': (1, lambda a: tuple[a, typing.Unpack[Ts]]), 'NewType': (1, lambda a: NewType('NT_dyn', a)),
    'ItemsView': (2, lambda a, b: cabc.ItemsView[a, b]), 'KeysView': (1, lambda a: cabc.KeysView[a]),
    'Collection': (1, lambda a: cabc.Collection[a]), 'Reversible': (1, lambda a: cabc.Reversible[a]),
    'OrderedDict': (2, lambda a, b: collections.OrderedDict[a, b]), 'defaultdict': (2, lambda a, b: collections.defaultdict[a, b]),
    'BoxJunk': (1, lambda a: BoxJunk[a]), 'BoxJunkConstr': (1, lambda a: BoxJunkConstr[a]), 'BoxStrBound': (1, lambda a: BoxStrBound[a]),
    'BoxUnionBound': (1, lambda a: BoxUnionBound[a]), 'BoxTupleBound': (1, lambda a: BoxTupleBound[a]),
    'G695Junk': (1, lambda a: _PEP695['G695Junk'][a]), 'Al695Junk': (1, lambda a: _PEP695['Al695Junk'][a]),
    'ProtoGeneric': (1, lambda a: ProtoGeneric[a]), 'AlG': (1, lambda a: _PEP695['AlG'][a]),
    'AlD': (2, lambda a, b: _PEP695['AlD'][a, b]), 'AlRecG': (1, lambda a: _PEP695['AlRecG'][a]), 'Pattern': (1, lambda a: typing.Pattern[a]),
}

OBJECTS = {
    'int1': lambda: 1, 'str_a': lambda: 'a', 'none': lambda: None, 'list1': lambda: [1], 'list_a': lambda: ['a'], 'dict_a1': lambda: {'a': 1},
    'tuple_1a': lambda: (1, 'a'), 'cls_int': lambda: int, 'cls_plain': lambda: Plain, 'plain': lambda: Plain(),
    'impl': lambda: DataProtoImpl(), 'cls_impl': lambda: DataProtoImpl, 'func': lambda: _func, 'enum': lambda: EnumK.A,
    'datak': lambda: DataK(), 'nt': lambda: NamedTupleK(), 'td': lambda: {'x': 1}, 'generick': lambda: GenericK(),
    'listsub': lambda: ListSub([1]), 'empty_list': lambda: [], 'set1': lambda: {1}, 'deque1': lambda: collections.deque([1]),
    'float': lambda: 1.5, 'bytes': lambda: b'x', 'true': lambda: True,
}


DEEP_ATOMS = ('deep_list_100', 'deep_list_260')
_SHALLOW_ATOMS = [a for a in ATOMS if a not in DEEP_ATOMS]
_STRING_ATOMS = [a for a in ATOMS if a.startswith('str_')]


def gen(rng, depth, deep=False):
    """A hint-ish tree. Atoms are biased towards the ordinary so that exotic atoms sit inside otherwise valid hints.

    Hints nested 100+ levels deep (DEEP_ATOMS) are generated only when ``deep`` is true (then with probability 1/2 per leaf).
    """
    if depth <= 0 or rng.random() < 0.3:
        r = rng.random()
        if deep and r < 0.5:
            return {'a': rng.choice(DEEP_ATOMS)}
        if r < 0.35:
            return {'a': rng.choice(['int', 'str', 'float', 'bool', 'None', 'object', 'Plain', 'list', 'NoneType'])}
        if r < 0.42:
            # a string hint (resolved against the calling module when the hint is used)
            return {'a': rng.choice(_STRING_ATOMS)}
        return {'a': rng.choice(_SHALLOW_ATOMS)}
    c = rng.choice(list(CTORS))
    return {'c': c, 'k': [gen(rng, depth - 1, deep) for _ in range(CTORS[c][0])]}


# For comparisons: hints that stand in a container relation to a user generic (its own base, the variadic / fixed / bare forms of
# that base, supertypes of it): is_subhint() then has to walk the generic's pseudo-superclasses against the other side's arguments
RELATIVES = {
    'PairTuple': ['tuple_int_var', 'Tuple_int_var', 'tuple_int_str', 'tuple_int3', 'tuple_empty', 'tuple_object_var', 'tuple', 'Sequence_int'],
    'PairTupleT_int': ['tuple_int_var', 'Tuple_int_var', 'tuple_int_str', 'tuple_object_var', 'tuple', 'Sequence_int'],
    'PairTupleT': ['tuple_int_var', 'tuple_int_str', 'tuple_object_var', 'tuple'],
    'TripleTuple': ['tuple_int_var', 'tuple_int_str', 'tuple_int3', 'tuple_empty', 'tuple_object_var', 'Sequence_int'],
    'VarTupleSub': ['tuple_int_var', 'tuple_int_str', 'tuple_int3', 'tuple_empty', 'Sequence_int'],
    'DictSub_int': ['dict_str_int', 'Mapping_str_int', 'dict', 'tuple_int_var'],
    'ListOfListSub_int': ['list_list_int', 'Sequence_int', 'list', 'ListSub_int'],
    'ListSub_int': ['list_list_int', 'Sequence_int', 'list', 'tuple_int_var'],
    'GenericK_int': ['GenericK', 'GenericK_T', 'list'],
}


def sibling(rng, tree):
    """A tree of the same shape with one atom replaced: comparisons between hints of one family (Literal vs Literal,
    list[X] vs list[Y], Callable vs Callable) reach the family-specific subhint code."""
    if 'a' in tree:
        return {'a': rng.choice(_SHALLOW_ATOMS)}
    kids = list(tree['k'])
    if not kids:
        return tree
    i = rng.randrange(len(kids))
    kids[i] = sibling(rng, kids[i])
    return {'c': tree['c'], 'k': kids}


def mentions(tree, atoms):
    if 'a' in tree:
        return tree['a'] in atoms
    return any(mentions(k, atoms) for k in tree['k'])


def build(tree):
    if 'a' in tree:
        try:
            return ATOMS[tree['a']]()
        except Exception as e:      # noqa
            raise Unbuildable(repr(e))
    kids = [build(k) for k in tree['k']]
    try:
        return CTORS[tree['c']][1](*kids)
    except Unbuildable:
        raise
    except Exception as e:      # noqa  (Python's own typing refused: nothing to hand to beartype)
        raise Unbuildable(repr(e))


def show(tree):
    if 'a' in tree:
        return tree['a']
    return '%s[%s]' % (tree['c'], ', '.join(show(k) for k in tree['k']))


def size(tree):
    return 1 if 'a' in tree else 1 + sum(size(k) for k in tree['k'])


def shrinks(tree):
    """Smaller trees: a child in place of the node, an ordinary atom in place of a subtree."""
    if 'c' in tree:
        for k in tree['k']:
            yield k
        for i, k in enumerate(tree['k']):
            if k != {'a': 'int'}:
                yield {'c': tree['c'], 'k': tree['k'][:i] + [{'a': 'int'}] + tree['k'][i + 1:]}
            for s in shrinks(k):
                yield {'c': tree['c'], 'k': tree['k'][:i] + [s] + tree['k'][i + 1:]}
