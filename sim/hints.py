"""Hint DSL, object DSL, generators and the three-valued reference semantics.

Everything here is independent of beartype: the DSLs are JSON trees, the
builders turn them into real ``typing`` hints / real objects, and the reference
semantics (``conforms`` / ``must_reject`` / ``some_path``) speak about *meaning*
only (DESIGN.md section 4). ``conforms`` and ``must_reject`` are both sufficient
conditions; between them lies a zone where no oracle speaks.
"""
import collections
import collections.abc as cabc
import re
import typing
from typing import (Any, Annotated, Generic, Literal, NewType, Optional, Protocol,
                    TypeVar, Union, runtime_checkable)

# ------------------------------------------------------------------ fixtures
class A:
    def __repr__(self):
        return 'A()'

    def __eq__(self, o):
        return type(o) is type(self)

    def __hash__(self):
        return hash(type(self).__name__)


class B(A):
    def __repr__(self):
        return 'B()'


class C:
    def __repr__(self):
        return 'C()'

    def __eq__(self, o):
        return type(o) is type(self)

    def __hash__(self):
        return 7


class NoWeak:
    """Instances cannot be weakly referenced."""
    __slots__ = ('v',)

    def __init__(self, v=0):
        self.v = v

    def __repr__(self):
        return 'NoWeak(%r)' % (self.v,)

    def __eq__(self, o):
        return type(o) is NoWeak and o.v == self.v

    def __hash__(self):
        return hash(self.v)


@runtime_checkable
class SupportsLenP(Protocol):
    def __len__(self) -> int: ...


@runtime_checkable
class HasNameP(Protocol):
    name: str

    def greet(self) -> str: ...


class Named:
    name = 'n'

    def greet(self):
        return 'hi'

    def __repr__(self):
        return 'Named()'

    def __eq__(self, o):
        return type(o) is Named

    def __hash__(self):
        return 11


T = TypeVar('T')
S = TypeVar('S')
TB = TypeVar('TB', bound=A)
TI = TypeVar('TI', bound=int)
TC = TypeVar('TC', int, str)
TS = TypeVar('TS', str, bytes)


class Box(Generic[T]):
    def __init__(self, *items):
        self.items = list(items)

    def __repr__(self):
        return 'Box(%s)' % ', '.join(map(repr, self.items))

    def __eq__(self, o):
        return type(o) is type(self) and o.items == self.items

    __hash__ = None


class ListBox(typing.List[T]):
    def __repr__(self):
        return 'ListBox(%s)' % list.__repr__(self)


class Shelf(typing.Dict[T, ListBox[int]]):
    """A generic whose base mentions *another* subscription of a generic over the same TypeVar: in Shelf[str] the key hint
    is str while the values stay ListBox[int] (the inner T is bound by the inner subscription, not by the outer one)."""

    def __repr__(self):
        return 'Shelf(%s)' % dict.__repr__(self)


class Table(typing.Dict[S, T]):
    def __repr__(self):
        return '%s(%s)' % (type(self).__name__, dict.__repr__(self))


class IntTable(Table[int, T]):
    """A generic that binds one parameter of its generic base and hands its own type variable on to the other: in IntTable[X]
    the keys are ints and the values are X."""


class Pair(Generic[T, S]):
    def __init__(self, a=None, b=None):
        self.a, self.b = a, b

    def __repr__(self):
        return 'Pair(%r, %r)' % (self.a, self.b)

    def __eq__(self, o):
        return type(o) is Pair and (o.a, o.b) == (self.a, self.b)

    __hash__ = None


UserId = NewType('UserId', int)
Label = NewType('Label', str)

class Node:
    """Linked fixture: attribute chains of differing values (node.parent.parent...), for nested IsAttr validators."""

    def __init__(self, parent=None, v=0):
        self.parent = parent
        self.v = v

    def __repr__(self):
        return 'Node(depth=%d, v=%r)' % (self.depth(), self.v)

    def depth(self):
        d, n = 1, self.parent
        while n is not None:
            d, n = d + 1, n.parent
        return d

    def __eq__(self, o):
        return type(o) is Node and o.v == self.v and o.parent == self.parent

    def __hash__(self):
        return hash(('Node', self.v, self.depth()))


CLASSES = {
    'Node': Node,
    'int': int, 'str': str, 'float': float, 'bytes': bytes, 'bool': bool,
    'complex': complex, 'list': list, 'dict': dict, 'tuple': tuple, 'set': set,
    'frozenset': frozenset, 'object': object, 'type': type,
    'A': A, 'B': B, 'C': C, 'NoWeak': NoWeak, 'Named': Named,
    'Box': Box, 'ListBox': ListBox, 'Pair': Pair, 'Shelf': Shelf, 'IntTable': IntTable,
}
PROTOS = {'SupportsLenP': SupportsLenP, 'HasNameP': HasNameP,
          'Sized': cabc.Sized, 'Hashable': cabc.Hashable,
          'SupportsInt': typing.SupportsInt, 'SupportsAbs': typing.SupportsAbs}
TYPEVARS = {'T': T, 'TB': TB, 'TI': TI, 'TC': TC, 'TS': TS}
NEWTYPES = {'UserId': UserId, 'Label': Label}
# Models of *known defects* of the library, switched on only by the signature functions of known findings to decide whether a
# violation is explained by that defect (see props/c02.py); never on while a check is deciding.
DEFECT_MODELS = set()
GENERICS = {'Box': Box, 'ListBox': ListBox, 'Pair': Pair, 'Shelf': Shelf, 'IntTable': IntTable}

# Validator predicates: total functions. Named functions, not lambdas: beartype
# reprs a lambda validator by re-parsing its source file (~80 ms per hint).
def _p_pos(x):
    return isinstance(x, (int, float)) and not isinstance(x, bool) and x > 0


def _p_nonempty(x):
    return (not isinstance(x, type)) and hasattr(x, '__len__') and len(x) > 0


def _p_even(x):
    return isinstance(x, int) and x % 2 == 0


def _p_truthy(x):
    return bool(x) if isinstance(x, (int, str, float, list, tuple, dict, set, frozenset, bytes, type(None))) else True


def _p_short(x):
    return (not isinstance(x, type)) and hasattr(x, '__len__') and len(x) < 3


def _p_gt0(x):
    return x > 0            # partial on purpose: raises TypeError for anything that is not a number (only used behind a guard)


def _p_lt10(x):
    return x < 10           # partial on purpose


def _p_always(x):
    return True


def _p_never(x):
    return False


PREDICATES = {
    'pos': _p_pos, 'nonempty': _p_nonempty, 'even': _p_even, 'truthy': _p_truthy,
    'short': _p_short, 'always': _p_always, 'never': _p_never, 'gt0': _p_gt0, 'lt10': _p_lt10,
}

SEQ_ORIGINS = {
    'list': (list, list), 'List': (typing.List, list),
    'Sequence': (cabc.Sequence, cabc.Sequence), 'TSequence': (typing.Sequence, cabc.Sequence),
    'MutableSequence': (cabc.MutableSequence, cabc.MutableSequence),
    'TMutableSequence': (typing.MutableSequence, cabc.MutableSequence),
}
SET_ORIGINS = {
    'set': (set, set), 'Set': (typing.Set, set), 'frozenset': (frozenset, frozenset),
    'FrozenSet': (typing.FrozenSet, frozenset),
    'AbstractSet': (cabc.Set, cabc.Set), 'TAbstractSet': (typing.AbstractSet, cabc.Set),
    'MutableSet': (cabc.MutableSet, cabc.MutableSet),
    'deque': (collections.deque, collections.deque), 'Deque': (typing.Deque, collections.deque),
    'Collection': (cabc.Collection, cabc.Collection), 'TCollection': (typing.Collection, cabc.Collection),
    'KeysView': (cabc.KeysView, cabc.KeysView), 'ValuesView': (cabc.ValuesView, cabc.ValuesView),
}
MAP_ORIGINS = {
    'dict': (dict, dict), 'Dict': (typing.Dict, dict),
    'Mapping': (cabc.Mapping, cabc.Mapping), 'TMapping': (typing.Mapping, cabc.Mapping),
    'MutableMapping': (cabc.MutableMapping, cabc.MutableMapping),
    'defaultdict': (collections.defaultdict, collections.defaultdict),
    'DefaultDict': (typing.DefaultDict, collections.defaultdict),
    'OrderedDict': (collections.OrderedDict, collections.OrderedDict),
    'TOrderedDict': (typing.OrderedDict, collections.OrderedDict),
    'ChainMap': (collections.ChainMap, collections.ChainMap), 'TChainMap': (typing.ChainMap, collections.ChainMap),
}
# Quasi-iterables: item-checked only when the object is a collection.
ITER_ORIGINS = {
    'Iterable': (cabc.Iterable, cabc.Iterable), 'TIterable': (typing.Iterable, cabc.Iterable),
    'Container': (cabc.Container, cabc.Container),
    'Reversible': (cabc.Reversible, cabc.Reversible),
}
# Shallow: only the isinstance test has a published, checkable meaning on a live object.
SHALLOW_ORIGINS = {
    'Iterator': (cabc.Iterator, cabc.Iterator), 'TIterator': (typing.Iterator, cabc.Iterator),
    'Generator': (cabc.Generator, cabc.Generator),
    'ItemsView': (cabc.ItemsView, cabc.ItemsView),
}


# Further hint families that beartype supports mostly shallowly. Each entry: hint factory, object DSLs that conform at full
# depth, a full-depth conformance predicate and a sufficient condition for "every correct checker rejects".
class _ExoTD(typing.TypedDict):
    x: int


class _ExoNT(typing.NamedTuple):
    x: int = 0


def _exo_func(a: int) -> int:
    return a


_EXO695 = {}
exec('type ExoAI = int | str\ntype ExoAlG[T] = list[T]\ntype ExoRec = list[ExoRec] | int', _EXO695)


def _exo_rec_ok(x, depth=0):
    if isinstance(x, int):
        return True
    return isinstance(x, list) and depth < 50 and all(_exo_rec_ok(i, depth + 1) for i in x)


def _is_int(x):
    return isinstance(x, int)


_EXO_SAMPLE = {int: {'o': 'int', 'v': 1}, str: {'o': 'str', 'v': 'a'}, bytes: {'o': 'bytes', 'v': 'b'}, float: {'o': 'float', 'v': 1.5},
               bool: {'o': 'bool', 'v': True}}


def _exo_fixed(hint, classes):
    """Entry for a hint equivalent to the fixed-length tuple hint over ``classes``."""
    def conf(x):
        return isinstance(x, tuple) and len(x) == len(classes) and all(
            isinstance(i, c) and (c is not float or not isinstance(i, bool)) for i, c in zip(x, classes))
    ok = {'o': 'tuple', 'i': [_EXO_SAMPLE[c] for c in classes]}
    bad = [{'o': 'tuple', 'i': ok['i'] + [ok['i'][0]]}, {'o': 'tuple', 'i': ok['i'][:-1]}, {'o': 'tuple', 'i': ok['i'][1:]}]
    for j in range(len(classes)):
        items = list(ok['i'])
        items[j] = {'o': 'none'}
        bad.append({'o': 'tuple', 'i': items})
    return {'hint': hint, 'ok': [ok], 'conf': conf, 'rej': lambda x: not conf(x), 'bad': bad}


EXOTICS = {
    'TypedDict': {'hint': lambda: _ExoTD,
                  'ok': [{'o': 'dict', 'i': [[{'o': 'str', 'v': 'x'}, {'o': 'int', 'v': 1}]]}],
                  'conf': lambda x: isinstance(x, dict) and set(x) == {'x'} and _is_int(x['x']),
                  'rej': lambda x: not isinstance(x, cabc.Mapping)},
    'NamedTuple': {'hint': lambda: _ExoNT, 'ok': [{'o': 'exo_nt', 'v': 1}, {'o': 'exo_nt', 'v': 0}],
                   'conf': lambda x: isinstance(x, _ExoNT) and _is_int(x.x), 'rej': lambda x: not isinstance(x, _ExoNT)},
    'Callable': {'hint': lambda: typing.Callable[[int], int], 'ok': [{'o': 'exo_func'}],
                 'conf': lambda x: x is _exo_func, 'rej': lambda x: not callable(x)},
    'abcCallable': {'hint': lambda: cabc.Callable[..., typing.Any], 'ok': [{'o': 'exo_func'}, {'o': 'clsobj', 'c': 'A'}],
                    'conf': callable, 'rej': lambda x: not callable(x)},
    'Pattern': {'hint': lambda: re.Pattern[str], 'ok': [{'o': 'exo_pattern', 'v': 'a+'}],
                'conf': lambda x: isinstance(x, re.Pattern) and isinstance(x.pattern, str), 'rej': lambda x: not isinstance(x, re.Pattern)},
    'LiteralString': {'hint': lambda: typing.LiteralString, 'ok': [{'o': 'str', 'v': 'xyz'}, {'o': 'str', 'v': ''}],
                      'conf': lambda x: isinstance(x, str), 'rej': lambda x: not isinstance(x, str)},
    'Unpacked646': {'hint': lambda: tuple[int, *tuple[str, ...], bytes],
                    'ok': [{'o': 'tuple', 'i': [{'o': 'int', 'v': 1}, {'o': 'str', 'v': 'a'}, {'o': 'bytes', 'v': 'b'}]},
                           {'o': 'tuple', 'i': [{'o': 'int', 'v': 1}, {'o': 'bytes', 'v': 'b'}]}],
                    'conf': lambda x: (isinstance(x, tuple) and len(x) >= 2 and _is_int(x[0]) and isinstance(x[-1], bytes)
                                       and all(isinstance(i, str) for i in x[1:-1])),
                    'rej': lambda x: not isinstance(x, tuple)},
    # PEP 646 unpacked *fixed-length* child tuples at every position: equivalent to the flattened fixed-length tuple hint, so
    # whatever does not conform must be rejected (fixed-length tuples are checked at every position)
    'Unpacked646FixedFirst': _exo_fixed(lambda: tuple[*tuple[str, bytes], int], (str, bytes, int)),
    'Unpacked646FixedMid': _exo_fixed(lambda: tuple[int, *tuple[str, bytes], float], (int, str, bytes, float)),
    'Unpacked646FixedLast': _exo_fixed(lambda: tuple[int, *tuple[str, bytes]], (int, str, bytes)),
    'Unpacked646FixedOnly': _exo_fixed(lambda: tuple[*tuple[str, bytes]], (str, bytes)),
    'Unpack646Typing': _exo_fixed(lambda: tuple[typing.Unpack[tuple[int, str]], float, bool], (int, str, float, bool)),
    'Alias695Union': {'hint': lambda: _EXO695['ExoAI'], 'ok': [{'o': 'str', 'v': 'a'}, {'o': 'int', 'v': 1}],
                      'conf': lambda x: isinstance(x, (int, str)), 'rej': lambda x: not isinstance(x, (int, str))},
    'Alias695Generic': {'hint': lambda: _EXO695['ExoAlG'][int],
                        'ok': [{'o': 'list', 'i': [{'o': 'int', 'v': 1}, {'o': 'int', 'v': 2}]}, {'o': 'list', 'i': []}],
                        'conf': lambda x: isinstance(x, list) and all(_is_int(i) for i in x),
                        'rej': lambda x: not isinstance(x, list) or (len(x) > 0 and not any(_is_int(i) for i in x))},
    'Alias695Rec': {'hint': lambda: _EXO695['ExoRec'],
                    'ok': [{'o': 'int', 'v': 3}, {'o': 'list', 'i': [{'o': 'list', 'i': [{'o': 'int', 'v': 1}]}, {'o': 'int', 'v': 2}]},
                           {'o': 'list', 'i': []}],
                    'conf': _exo_rec_ok, 'rej': lambda x: not isinstance(x, (list, int))},
}


# ------------------------------------------------------------------ builders
class Env:
    """Per-run environment: generated classes by slot name."""

    def __init__(self):
        self.classes = dict(CLASSES)

    def cls(self, n):
        return self.classes[n]


def build_validator(v):
    from beartype.vale import Is, IsAttr, IsEqual, IsInstance, IsSubclass
    k = v['v']
    if k == 'is':
        return Is[PREDICATES[v['f']]]
    if k == 'isinst':
        return IsInstance[tuple(CLASSES[c] for c in v['c'])]
    if k == 'iseq':
        return IsEqual[build_json_value(v['x'])]
    if k == 'isattr':
        return IsAttr[v['n'], build_validator(v['a'])]
    if k == 'and':
        return build_validator(v['a'][0]) & build_validator(v['a'][1])
    if k == 'or':
        return build_validator(v['a'][0]) | build_validator(v['a'][1])
    if k == 'not':
        return ~build_validator(v['a'][0])
    raise ValueError(v)


def eval_validator(v, x):
    k = v['v']
    if k == 'is':
        return bool(PREDICATES[v['f']](x))
    if k == 'isinst':
        return isinstance(x, tuple(CLASSES[c] for c in v['c']))
    if k == 'iseq':
        try:
            return bool(x == build_json_value(v['x']))
        except Exception:
            return False
    if k == 'isattr':
        if not hasattr(x, v['n']):
            return False
        return eval_validator(v['a'], getattr(x, v['n']))
    if k == 'and':
        return eval_validator(v['a'][0], x) and eval_validator(v['a'][1], x)
    if k == 'or':
        return eval_validator(v['a'][0], x) or eval_validator(v['a'][1], x)
    if k == 'not':
        return not eval_validator(v['a'][0], x)
    raise ValueError(v)


def build_json_value(j):
    """JSON encodings of literal values: bytes as {'b': 'text'}, None as null."""
    if isinstance(j, dict):
        if 'b' in j:
            return j['b'].encode()
        if 't' in j:
            return tuple(build_json_value(x) for x in j['t'])
    if isinstance(j, list):
        return [build_json_value(x) for x in j]
    return j


def build_hint(h, env=None):
    env = env or _DEFAULT_ENV
    k = h['k']
    if k == 'cls':
        return env.cls(h['n'])
    if k == 'none':
        return None
    if k == 'any':
        return Any
    if k == 'union':
        return Union[tuple(build_hint(a, env) for a in h['a'])]
    if k == 'pipe':
        r = None
        for a in h['a']:
            b = build_hint(a, env)
            if b is None:
                b = type(None)
            r = b if r is None else (r | b)
        return r
    if k == 'opt':
        return Optional[build_hint(h['a'][0], env)]
    if k == 'lit':
        return Literal[tuple(build_json_value(v) for v in h['v'])]
    if k == 'tuple':
        if not h['a']:
            return tuple[()]
        base = typing.Tuple if h.get('t') else tuple
        return base[tuple(build_hint(a, env) for a in h['a'])]
    if k == 'vtuple':
        base = typing.Tuple if h.get('t') else tuple
        return base[build_hint(h['a'][0], env), ...]
    if k == 'seq':
        return SEQ_ORIGINS[h['o']][0][build_hint(h['a'][0], env)]
    if k == 'set':
        return SET_ORIGINS[h['o']][0][build_hint(h['a'][0], env)]
    if k == 'map':
        return MAP_ORIGINS[h['o']][0][build_hint(h['a'][0], env), build_hint(h['a'][1], env)]
    if k == 'counter':
        return (typing.Counter if h.get('t') else collections.Counter)[build_hint(h['a'][0], env)]
    if k == 'iter':
        return ITER_ORIGINS[h['o']][0][build_hint(h['a'][0], env)]
    if k == 'shallow':
        o = SHALLOW_ORIGINS[h['o']][0]
        if h['o'] == 'Generator':
            return o[build_hint(h['a'][0], env), None, None]
        if h['o'] == 'ItemsView':
            return o[build_hint(h['a'][0], env), build_hint(h['a'][1], env)]
        return o[build_hint(h['a'][0], env)]
    if k == 'type':
        if not h.get('a'):
            return type
        return (typing.Type if h.get('t') else type)[build_hint(h['a'][0], env)]
    if k == 'tv':
        return TYPEVARS[h['n']]
    if k == 'newtype':
        return NEWTYPES[h['n']]
    if k == 'ann':
        return Annotated[(build_hint(h['a'][0], env),) + tuple(build_validator(v) for v in h['v'])]
    if k == 'proto':
        return PROTOS[h['n']]
    if k == 'exo':
        return EXOTICS[h['n']]['hint']()
    if k == 'gen':
        g = GENERICS[h['n']]
        args = tuple(build_hint(a, env) for a in h['a'])
        return g[args if len(args) > 1 else args[0]]
    if k == 'ref':
        return h['n']
    raise ValueError(h)


def build_obj(o, env=None):
    env = env or _DEFAULT_ENV
    k = o['o']
    if k == 'str':
        # a *fresh* string object, equal but (beyond one character) not identical to the one a Literal[...] hint was
        # built from: conformance to Literal is equality (PEP 586), never identity
        return ''.join(list(o['v']))
    if k == 'int':
        return int(str(o['v']))
    if k in ('float', 'bool'):
        return o['v']
    if k == 'none':
        return None
    if k == 'bytes':
        return o['v'].encode()
    if k == 'complex':
        return complex(o['v'][0], o['v'][1])
    if k == 'list':
        return [build_obj(i, env) for i in o['i']]
    if k == 'tuple':
        return tuple(build_obj(i, env) for i in o['i'])
    if k == 'set':
        return set(build_obj(i, env) for i in o['i'])
    if k == 'frozenset':
        return frozenset(build_obj(i, env) for i in o['i'])
    if k == 'deque':
        return collections.deque(build_obj(i, env) for i in o['i'])
    if k == 'dict':
        return {build_obj(a, env): build_obj(b, env) for a, b in o['i']}
    if k == 'defaultdict':
        d = collections.defaultdict(int)
        for a, b in o['i']:
            d[build_obj(a, env)] = build_obj(b, env)
        return d
    if k == 'odict':
        return collections.OrderedDict((build_obj(a, env), build_obj(b, env)) for a, b in o['i'])
    if k == 'chainmap':
        # two child maps: the first holds every second pair, the second all of them (lookups fall through)
        pairs = [(build_obj(a, env), build_obj(b, env)) for a, b in o['i']]
        return collections.ChainMap(dict(pairs[::2]), dict(pairs))
    if k == 'counter':
        c = collections.Counter()
        for a, b in o['i']:
            c[build_obj(a, env)] = build_obj(b, env)
        return c
    if k == 'keys':
        return {build_obj(a, env): build_obj(b, env) for a, b in o['i']}.keys()
    if k == 'values':
        return {build_obj(a, env): build_obj(b, env) for a, b in o['i']}.values()
    if k == 'items':
        return {build_obj(a, env): build_obj(b, env) for a, b in o['i']}.items()
    if k == 'inst':
        c = env.cls(o['c'])
        if c is NoWeak:
            return NoWeak(o.get('v', 0))
        if c is Node:
            n = None
            for j in range(o.get('d', 1)):
                n = Node(n, o.get('v', 0) + j)     # the innermost (root) node first; values differ along the chain
            return n
        return c()
    if k == 'exo_nt':
        return _ExoNT(o.get('v', 0))
    if k == 'exo_func':
        return _exo_func
    if k == 'exo_pattern':
        return re.compile(o['v'])
    if k == 'clsobj':
        return env.cls(o['c'])
    if k == 'iterator':
        return iter([build_obj(i, env) for i in o['i']])
    if k == 'generator':
        items = [build_obj(i, env) for i in o['i']]
        return (x for x in items)
    if k == 'box':
        return Box(*[build_obj(i, env) for i in o['i']])
    if k == 'shelf':
        return Shelf((build_obj(a, env), build_obj(b, env)) for a, b in o['i'])
    if k == 'listbox':
        return ListBox(build_obj(i, env) for i in o['i'])
    if k == 'inttable':
        return IntTable((build_obj(a, env), build_obj(b, env)) for a, b in o['i'])
    if k == 'pair':
        return Pair(build_obj(o['i'][0], env), build_obj(o['i'][1], env))
    if k == 'range':
        return range(o['v'])
    raise ValueError(o)


_DEFAULT_ENV = Env()


# ------------------------------------------------------------------ reference semantics
def _is_collection(x):
    return isinstance(x, cabc.Collection)


def _origin_cls(h):
    k = h['k']
    if k == 'seq':
        return SEQ_ORIGINS[h['o']][1]
    if k == 'set':
        return SET_ORIGINS[h['o']][1]
    if k == 'map':
        return MAP_ORIGINS[h['o']][1]
    if k == 'iter':
        return ITER_ORIGINS[h['o']][1]
    if k == 'shallow':
        return SHALLOW_ORIGINS[h['o']][1]
    if k == 'counter':
        return collections.Counter
    raise ValueError(h)


_INT = {'k': 'cls', 'n': 'int'}


def _items_of(x):
    """Items of a re-iterable collection, in iteration order (reference use only)."""
    return list(x)


def conforms(h, x, tower=False, env=None, _seen=None):
    """Sufficient condition for: x satisfies hint h at full depth."""
    env = env or _DEFAULT_ENV
    k = h['k']
    if k == 'cls':
        c = env.cls(h['n'])
        if tower:
            if c is float and isinstance(x, int) and not isinstance(x, bool) or (c is float and type(x) is bool):
                return True
            if c is complex and isinstance(x, (int, float)):
                return True
        return isinstance(x, c)
    if k == 'none':
        return x is None
    if k == 'any':
        return True
    if k in ('union', 'pipe'):
        return any(conforms(a, x, tower, env) for a in h['a'])
    if k == 'opt':
        return x is None or conforms(h['a'][0], x, tower, env)
    if k == 'lit':
        for m in h['v']:
            m = build_json_value(m)
            if type(x) is type(m) and x == m:
                return True
        return False
    if k == 'tuple':
        return (isinstance(x, tuple) and len(x) == len(h['a'])
                and all(conforms(a, i, tower, env) for a, i in zip(h['a'], x)))
    if k == 'vtuple':
        return isinstance(x, tuple) and all(conforms(h['a'][0], i, tower, env) for i in x)
    if k == 'seq':
        if not isinstance(x, _origin_cls(h)):
            return False
        if isinstance(x, (str, bytes)):
            # a string is a sequence of one-character strings; cut the recursion
            if isinstance(x, str):
                return all(conforms(h['a'][0], ch, tower, env) for ch in set(x)) if len(x) != 1 \
                    else _conforms_char(h['a'][0], x, tower, env)
            return all(conforms(h['a'][0], b, tower, env) for b in x)
        return all(conforms(h['a'][0], i, tower, env) for i in x)
    if k == 'set':
        return isinstance(x, _origin_cls(h)) and all(conforms(h['a'][0], i, tower, env) for i in _items_of(x))
    if k == 'map':
        return (isinstance(x, _origin_cls(h))
                and all(conforms(h['a'][0], kk, tower, env) and conforms(h['a'][1], vv, tower, env)
                        for kk, vv in list(x.items())))
    if k == 'counter':
        return (isinstance(x, collections.Counter)
                and all(conforms(h['a'][0], kk, tower, env) and conforms(_INT, vv, tower, env)
                        for kk, vv in list(x.items())))
    if k == 'iter':
        if not isinstance(x, _origin_cls(h)):
            return False
        if isinstance(x, (str, bytes)):
            return False        # not claimed either way
        if _is_collection(x):
            return all(conforms(h['a'][0], i, tower, env) for i in _items_of(x))
        return False            # one-shot: cannot be judged on the live object (generator sets it up by construction)
    if k == 'shallow':
        return False            # only by construction
    if k == 'type':
        if not isinstance(x, type):
            return False
        if not h.get('a'):
            return True
        return _issub(x, h['a'][0], env)
    if k == 'tv':
        tv = TYPEVARS[h['n']]
        if tv.__bound__ is not None:
            return isinstance(x, tv.__bound__)
        if tv.__constraints__:
            return isinstance(x, tv.__constraints__)
        return True
    if k == 'newtype':
        return isinstance(x, NEWTYPES[h['n']].__supertype__)
    if k == 'ann':
        return conforms(h['a'][0], x, tower, env) and all(eval_validator(v, x) for v in h['v'])
    if k == 'proto':
        return isinstance(x, PROTOS[h['n']])
    if k == 'exo':
        return bool(EXOTICS[h['n']]['conf'](x))
    if k == 'gen':
        g = GENERICS[h['n']]
        if not isinstance(x, g):
            return False
        if g is ListBox:
            return all(conforms(h['a'][0], i, tower, env) for i in x)
        if g is Shelf:
            return all(conforms(h['a'][0], kk, tower, env) and isinstance(vv, ListBox) and all(isinstance(i, int) for i in vv)
                       for kk, vv in x.items())
        if g is IntTable:
            return all(isinstance(kk, int) and conforms(h['a'][0], vv, tower, env) for kk, vv in x.items())
        return True
    if k == 'ref':
        return isinstance(x, env.cls(h['n']))
    raise ValueError(h)


def _conforms_char(h, ch, tower, env):
    # one-character string as an item of a string: item hint must accept str
    k = h['k']
    if k == 'seq':
        return isinstance(ch, _origin_cls(h)) and _conforms_char(h['a'][0], ch, tower, env)
    return conforms(h, ch, tower, env)


def _issub(x, h, env):
    k = h['k']
    if k == 'cls':
        return issubclass(x, env.cls(h['n']))
    if k == 'any':
        return True
    if k in ('union', 'pipe'):
        return any(_issub(x, a, env) for a in h['a'])
    if k == 'tv':
        tv = TYPEVARS[h['n']]
        if tv.__bound__ is not None:
            return issubclass(x, tv.__bound__)
        if tv.__constraints__:
            return issubclass(x, tv.__constraints__)
        return True
    if k == 'ref':
        return issubclass(x, env.cls(h['n']))
    if k == 'none':
        return issubclass(x, type(None))
    raise ValueError(h)


def must_reject(h, x, tower=False, env=None):
    """Sufficient condition for: every correct checker rejects x under h, whatever it samples."""
    env = env or _DEFAULT_ENV
    k = h['k']
    if k == 'cls':
        c = env.cls(h['n'])
        if tower and c in (float, complex):
            if c is float:
                return not isinstance(x, (float, int))
            return not isinstance(x, (complex, float, int))
        return not isinstance(x, c)
    if k == 'none':
        return x is not None
    if k == 'any':
        return False
    if k in ('union', 'pipe'):
        return all(must_reject(a, x, tower, env) for a in h['a'])
    if k == 'opt':
        return x is not None and must_reject(h['a'][0], x, tower, env)
    if k == 'lit':
        ms = [build_json_value(m) for m in h['v']]
        try:
            eq_none = all(not (x == m) for m in ms)
        except Exception:
            eq_none = False
        inst_none = all(not isinstance(x, type(m)) for m in ms)
        return eq_none or inst_none
    if k == 'tuple':
        if not isinstance(x, tuple) or len(x) != len(h['a']):
            return True
        return any(must_reject(a, i, tower, env) for a, i in zip(h['a'], x))
    if k == 'vtuple':
        if not isinstance(x, tuple):
            return True
        return len(x) > 0 and all(must_reject(h['a'][0], i, tower, env) for i in x)
    if k == 'seq':
        if not isinstance(x, _origin_cls(h)):
            return True
        # (a str is a Sequence of one-character strs, a bytes object a Sequence of ints: "every item violates" applies to
        # them like to any other sequence; recursion ends with the hint, since the items are judged against the child hint)
        return len(x) > 0 and all(must_reject(h['a'][0], i, tower, env) for i in x)
    if k == 'set':
        if not isinstance(x, _origin_cls(h)):
            return True
        it = _items_of(x)
        return len(it) > 0 and all(must_reject(h['a'][0], i, tower, env) for i in it)
    if k in ('map', 'counter'):
        oc = _origin_cls(h)
        if not isinstance(x, oc):
            return True
        items = list(x.items())
        if not items:
            return False
        kh = h['a'][0]
        vh = h['a'][1] if k == 'map' else _INT
        return (all(must_reject(kh, kk, tower, env) for kk, _ in items)
                or all(must_reject(vh, vv, tower, env) for _, vv in items))
    if k == 'iter':
        if not isinstance(x, _origin_cls(h)):
            return True
        if isinstance(x, (str, bytes)) or not _is_collection(x):
            return False
        it = _items_of(x)
        return len(it) > 0 and all(must_reject(h['a'][0], i, tower, env) for i in it)
    if k == 'shallow':
        return not isinstance(x, _origin_cls(h))
    if k == 'type':
        if not isinstance(x, type):
            return True
        if not h.get('a'):
            return False
        return not _issub(x, h['a'][0], env)
    if k == 'tv':
        tv = TYPEVARS[h['n']]
        if tv.__bound__ is not None:
            return not isinstance(x, tv.__bound__)
        if tv.__constraints__:
            return not isinstance(x, tv.__constraints__)
        return False
    if k == 'newtype':
        return not isinstance(x, NEWTYPES[h['n']].__supertype__)
    if k == 'ann':
        if must_reject(h['a'][0], x, tower, env):
            return True
        # a failed validator is only "must" when the base hint is actually satisfied
        # (otherwise the base hint decides and may be unspecified)
        return conforms(h['a'][0], x, tower, env) and not all(eval_validator(v, x) for v in h['v'])
    if k == 'proto':
        return not isinstance(x, PROTOS[h['n']])
    if k == 'exo':
        return bool(EXOTICS[h['n']]['rej'](x))
    if k == 'gen':
        g = GENERICS[h['n']]
        if not isinstance(x, g):
            return True
        if g is ListBox:
            return len(x) > 0 and all(must_reject(h['a'][0], i, tower, env) for i in x)
        if g is Shelf:
            items = list(x.items())
            if not items:
                return False
            return (all(must_reject(h['a'][0], kk, tower, env) for kk, _ in items)
                    or all((not isinstance(vv, ListBox)) or (len(vv) > 0 and not any(isinstance(i, int) for i in vv)) for _, vv in items))
        if g is IntTable:
            items = list(x.items())
            if not items:
                return False
            if 'inttable_values_unchecked' in DEFECT_MODELS:
                return all(not isinstance(kk, int) for kk, _ in items)
            return (all(not isinstance(kk, int) for kk, _ in items) or all(must_reject(h['a'][0], vv, tower, env) for _, vv in items))
        return False
    if k == 'ref':
        return not isinstance(x, env.cls(h['n']))
    raise ValueError(h)


def some_path(h, x, tower=False, env=None):
    """Necessary condition for acceptance: one item per container level can be
    chosen consistently with the hint (emptiness counts)."""
    env = env or _DEFAULT_ENV
    k = h['k']
    if k in ('union', 'pipe'):
        return any(some_path(a, x, tower, env) for a in h['a'])
    if k == 'opt':
        return x is None or some_path(h['a'][0], x, tower, env)
    if k == 'tuple':
        return (isinstance(x, tuple) and len(x) == len(h['a'])
                and all(some_path(a, i, tower, env) for a, i in zip(h['a'], x)))
    if k == 'vtuple':
        return isinstance(x, tuple) and (len(x) == 0 or any(some_path(h['a'][0], i, tower, env) for i in x))
    if k == 'seq':
        if not isinstance(x, _origin_cls(h)):
            return False
        if isinstance(x, (str, bytes)):
            return True
        return len(x) == 0 or any(some_path(h['a'][0], i, tower, env) for i in x)
    if k == 'set' or k == 'iter':
        if not isinstance(x, _origin_cls(h)):
            return False
        if isinstance(x, (str, bytes)) or not _is_collection(x):
            return True
        it = _items_of(x)
        return len(it) == 0 or any(some_path(h['a'][0], i, tower, env) for i in it)
    if k in ('map', 'counter'):
        if not isinstance(x, _origin_cls(h)):
            return False
        items = list(x.items())
        vh = h['a'][1] if k == 'map' else _INT
        return not items or any(some_path(h['a'][0], kk, tower, env) and some_path(vh, vv, tower, env)
                                for kk, vv in items)
    if k == 'ann':
        return some_path(h['a'][0], x, tower, env) and all(eval_validator(v, x) for v in h['v'])
    if k == 'gen':
        g = GENERICS[h['n']]
        if not isinstance(x, g):
            return False
        if g is ListBox:
            return len(x) == 0 or any(some_path(h['a'][0], i, tower, env) for i in x)
        if g is IntTable:
            return len(x) == 0 or any(isinstance(kk, int) and some_path(h['a'][0], vv, tower, env) for kk, vv in x.items())
        return True
    # leaves: anything not certainly rejected
    return not must_reject(h, x, tower, env)


# ------------------------------------------------------------------ generators
LEAF_CLASSES = ['int', 'str', 'float', 'bytes', 'bool', 'complex', 'A', 'B', 'C', 'NoWeak', 'Named', 'Node']
HASHABLE_LEAVES = ['int', 'str', 'float', 'bytes', 'bool', 'A', 'B', 'C', 'NoWeak']

LEAF_OBJS = [
    {'o': 'int', 'v': 0}, {'o': 'int', 'v': 1}, {'o': 'int', 'v': -7}, {'o': 'int', 'v': 2},
    {'o': 'str', 'v': ''}, {'o': 'str', 'v': 'a'}, {'o': 'str', 'v': 'xyz'},
    {'o': 'float', 'v': 0.5}, {'o': 'float', 'v': 1.0}, {'o': 'bool', 'v': True}, {'o': 'bool', 'v': False},
    {'o': 'none'}, {'o': 'bytes', 'v': 'b'}, {'o': 'complex', 'v': [1, 2]},
    {'o': 'inst', 'c': 'A'}, {'o': 'inst', 'c': 'B'}, {'o': 'inst', 'c': 'C'},
    {'o': 'inst', 'c': 'NoWeak', 'v': 3}, {'o': 'inst', 'c': 'Named'},
    {'o': 'inst', 'c': 'Node', 'd': 1, 'v': 0}, {'o': 'inst', 'c': 'Node', 'd': 2, 'v': 1}, {'o': 'inst', 'c': 'Node', 'd': 3, 'v': 0},
    {'o': 'inst', 'c': 'Node', 'd': 4, 'v': 2},
    {'o': 'clsobj', 'c': 'A'}, {'o': 'clsobj', 'c': 'B'}, {'o': 'clsobj', 'c': 'int'}, {'o': 'clsobj', 'c': 'bool'},
    {'o': 'clsobj', 'c': 'float'}, {'o': 'clsobj', 'c': 'complex'}, {'o': 'clsobj', 'c': 'str'},
]

VALIDATORS = [
    {'v': 'is', 'f': 'pos'}, {'v': 'is', 'f': 'nonempty'}, {'v': 'is', 'f': 'even'},
    {'v': 'is', 'f': 'truthy'}, {'v': 'is', 'f': 'short'}, {'v': 'is', 'f': 'always'},
    {'v': 'isinst', 'c': ['int', 'str']}, {'v': 'iseq', 'x': 2}, {'v': 'iseq', 'x': 'a'},
    {'v': 'isattr', 'n': 'real', 'a': {'v': 'is', 'f': 'pos'}},
    {'v': 'not', 'a': [{'v': 'is', 'f': 'even'}]},
    {'v': 'and', 'a': [{'v': 'is', 'f': 'pos'}, {'v': 'is', 'f': 'even'}]},
    {'v': 'or', 'a': [{'v': 'iseq', 'x': 0}, {'v': 'is', 'f': 'pos'}]},
]

_NODE_LEAF_VALIDATORS = [
    {'v': 'isinst', 'c': ['Node']}, {'v': 'iseq', 'x': None}, {'v': 'is', 'f': 'truthy'}, {'v': 'isinst', 'c': ['int']},
    {'v': 'is', 'f': 'always'}, {'v': 'not', 'a': [{'v': 'iseq', 'x': None}]}, {'v': 'iseq', 'x': 0}, {'v': 'iseq', 'x': 1},
]


def _gen_partial_compound(rng, depth):
    """A compound of *partial* predicates (they raise TypeError on non-numbers): only ever placed behind a guard."""
    r = rng.random()
    if depth <= 0 or r < 0.4:
        return {'v': 'is', 'f': rng.choice(['gt0', 'lt10'])}
    if r < 0.7:
        return {'v': 'and', 'a': [_gen_partial_compound(rng, depth - 1), _gen_partial_compound(rng, depth - 1)]}
    if r < 0.9:
        return {'v': 'or', 'a': [_gen_partial_compound(rng, depth - 1), _gen_partial_compound(rng, depth - 1)]}
    return {'v': 'not', 'a': [_gen_partial_compound(rng, depth - 1)]}


def gen_node_validator(rng, depth=3):
    """Validator expressions over the attribute chains of Node: nested IsAttr on the *same* attribute name, compounds with
    operands before and after the nested one, and guarded partial predicates (IsInstance[int] & <compound that would raise
    on anything else>): the guard short-circuits the compound in the fast path *and* while a rejection is explained."""
    r = rng.random()
    if depth > 0 and rng.random() < 0.12:
        return {'v': 'and', 'a': [{'v': 'isinst', 'c': ['int']}, _gen_partial_compound(rng, rng.choice([0, 1, 2]))]}
    if depth <= 0 or r < 0.25:
        return rng.choice(_NODE_LEAF_VALIDATORS)
    if r < 0.55:
        return {'v': 'isattr', 'n': rng.choice(['parent', 'parent', 'parent', 'v']), 'a': gen_node_validator(rng, depth - 1)}
    if r < 0.78:
        return {'v': 'and', 'a': [gen_node_validator(rng, depth - 1), gen_node_validator(rng, depth - 1)]}
    if r < 0.94:
        return {'v': 'or', 'a': [gen_node_validator(rng, depth - 1), gen_node_validator(rng, depth - 1)]}
    return {'v': 'not', 'a': [gen_node_validator(rng, depth - 1)]}


LITERAL_POOL = [0, 1, 2, -1, 'a', 'b', '', True, False, None, {'b': 'x'}, 1000, -300, 2 ** 40, 'ab', 'hello world', {'b': 'xyz'}]


def gen_hint(rng, depth=3, hashable=False, families=None, leafy=0.3):
    """Random hint DSL. ``hashable``: instances must be hashable (set items, keys)."""
    if depth <= 0 or rng.random() < leafy:
        return _gen_leaf(rng, hashable)
    fams = families or ['union', 'opt', 'pipe', 'lit', 'tuple', 'vtuple', 'seq', 'set', 'map',
                        'counter', 'iter', 'type', 'tv', 'newtype', 'ann', 'proto', 'gen', 'shallow', 'leaf']
    if hashable:
        fams = [f for f in fams if f in ('union', 'opt', 'pipe', 'lit', 'tuple', 'vtuple', 'type', 'tv',
                                         'newtype', 'ann', 'leaf', 'fset')] + ['fset']
    f = rng.choice(fams)
    d = depth - 1
    if f == 'leaf':
        return _gen_leaf(rng, hashable)
    if f == 'union':
        n = rng.randint(2, 4)
        if not hashable and (families is None or 'gen' in families) and rng.random() < 0.15:
            # two subscriptions of one user generic (or of one container family) as direct members: they reduce to the same
            # origin and differ only in their arguments
            g = rng.choice(['Box', 'ListBox', 'ListBox', 'list', 'dict'])
            leaves = rng.sample(['int', 'str', 'bytes', 'A', 'float'], 2)
            if g in ('Box', 'ListBox'):
                members = [{'k': 'gen', 'n': g, 'a': [{'k': 'cls', 'n': l}]} for l in leaves]
            elif g == 'list':
                members = [{'k': 'seq', 'o': 'list', 'a': [{'k': 'cls', 'n': l}]} for l in leaves]
            else:
                members = [{'k': 'map', 'o': 'dict', 'a': [{'k': 'cls', 'n': 'str'}, {'k': 'cls', 'n': l}]} for l in leaves]
            if rng.random() < 0.4:
                members.append(_no_subscripted_alias(rng, gen_hint(rng, d, hashable, families), hashable))
            rng.shuffle(members)
            return {'k': 'union', 'a': members}
        return {'k': 'union', 'a': [_no_subscripted_alias(rng, gen_hint(rng, d, hashable, families), hashable) for _ in range(n)]}
    if f == 'pipe':
        n = rng.randint(2, 3)
        a = [gen_hint(rng, d, hashable, families) for _ in range(n)]
        # X | Y needs at least one operand supporting __or__ : avoid all-None / literal-only forms
        # (subscripted PEP 695 aliases: CPython reorders them inside X | Y, which beartype refuses with a public exception)
        a = [x for x in a if x['k'] not in ('ref', 'lit', 'ann', 'newtype', 'exo')] or [_gen_leaf(rng, hashable)]
        if all(x['k'] == 'none' for x in a):
            a.append({'k': 'cls', 'n': 'int'})
        if a[0]['k'] == 'none':
            a.reverse()
        if a[0]['k'] == 'none':
            a.insert(0, {'k': 'cls', 'n': 'str'})
        if len(a) < 2:
            a.append({'k': 'cls', 'n': rng.choice(['int', 'str', 'bytes'])})
        return {'k': 'pipe', 'a': a}
    if f == 'opt':
        return {'k': 'opt', 'a': [_no_subscripted_alias(rng, gen_hint(rng, d, hashable, families), hashable)]}
    if f == 'lit':
        n = rng.randint(1, 3)
        return {'k': 'lit', 'v': rng.sample(LITERAL_POOL, n)}
    if f == 'tuple':
        n = rng.randint(0, 3)
        return {'k': 'tuple', 'a': [gen_hint(rng, d, hashable, families) for _ in range(n)], 't': rng.random() < 0.3}
    if f == 'vtuple':
        return {'k': 'vtuple', 'a': [gen_hint(rng, d, hashable, families)], 't': rng.random() < 0.3}
    if f == 'fset':
        return {'k': 'set', 'o': rng.choice(['frozenset', 'FrozenSet']), 'a': [gen_hint(rng, d, True, families)]}
    if f == 'seq':
        return {'k': 'seq', 'o': rng.choice(list(SEQ_ORIGINS)), 'a': [gen_hint(rng, d, False, families)]}
    if f == 'set':
        o = rng.choice(list(SET_ORIGINS))
        item_hashable = o not in ('deque', 'Deque', 'Collection', 'TCollection', 'ValuesView')
        return {'k': 'set', 'o': o, 'a': [gen_hint(rng, d, item_hashable, families)]}
    if f == 'map':
        return {'k': 'map', 'o': rng.choice(list(MAP_ORIGINS)),
                'a': [gen_hint(rng, d, True, families), gen_hint(rng, d, False, families)]}
    if f == 'counter':
        return {'k': 'counter', 'a': [gen_hint(rng, d, True, families)], 't': rng.random() < 0.3}
    if f == 'iter':
        return {'k': 'iter', 'o': rng.choice(list(ITER_ORIGINS)), 'a': [gen_hint(rng, d, False, families)]}
    if f == 'shallow':
        o = rng.choice(list(SHALLOW_ORIGINS))
        if o == 'ItemsView':
            return {'k': 'shallow', 'o': o, 'a': [gen_hint(rng, d, True, families), gen_hint(rng, d, False, families)]}
        return {'k': 'shallow', 'o': o, 'a': [gen_hint(rng, d, False, families)]}
    if f == 'type':
        r = rng.random()
        if r < 0.15:
            return {'k': 'type', 'a': []}
        if r < 0.7:
            inner = {'k': 'cls', 'n': rng.choice(['int', 'A', 'B', 'C', 'str', 'bool', 'Named', 'float', 'complex'])}
        elif r < 0.85:
            inner = {'k': 'union', 'a': [{'k': 'cls', 'n': 'A'}, {'k': 'cls', 'n': rng.choice(['int', 'C', 'str'])}]}
        elif r < 0.93:
            inner = {'k': 'tv', 'n': rng.choice(['TB', 'TI', 'T'])}
        else:
            inner = {'k': 'any'}
        return {'k': 'type', 'a': [inner], 't': rng.random() < 0.3}
    if f == 'tv':
        return {'k': 'tv', 'n': rng.choice(['T', 'TB', 'TI', 'TC', 'TS'] if not hashable else ['TB', 'TI', 'TC', 'TS'])}
    if f == 'newtype':
        return {'k': 'newtype', 'n': rng.choice(list(NEWTYPES))}
    if f == 'ann':
        if not hashable and rng.random() < 0.3:
            return {'k': 'ann', 'a': [{'k': 'cls', 'n': 'Node'}], 'v': [gen_node_validator(rng, rng.choice([2, 3, 3, 4]))]}
        base = gen_hint(rng, d, hashable, families)
        if base['k'] in ('ref',):
            base = _gen_leaf(rng, hashable)
        n = rng.randint(1, 2)
        return {'k': 'ann', 'a': [base], 'v': [rng.choice(VALIDATORS) for _ in range(n)]}
    if f == 'proto':
        if hashable:
            return _gen_leaf(rng, hashable)
        if rng.random() < 0.5:
            return {'k': 'exo', 'n': rng.choice(list(EXOTICS))}
        return {'k': 'proto', 'n': rng.choice(list(PROTOS))}
    if f == 'gen':
        if hashable:
            return _gen_leaf(rng, hashable)
        n = rng.choice(['Box', 'ListBox', 'Pair', 'Shelf', 'IntTable'])
        if n == 'Shelf':
            return {'k': 'gen', 'n': n, 'a': [{'k': 'cls', 'n': rng.choice(['str', 'bytes', 'int', 'A'])}]}
        if n == 'Pair':
            return {'k': 'gen', 'n': n, 'a': [gen_hint(rng, d, False, families), gen_hint(rng, d, False, families)]}
        return {'k': 'gen', 'n': n, 'a': [gen_hint(rng, d, False, families)]}
    raise ValueError(f)


def _no_subscripted_alias(rng, h, hashable):
    """A subscripted PEP 695 alias as a *direct* member of a union is refused by beartype with a public exception
    (BeartypeDecorHintPep604Exception: CPython gives 'Alias[int] | int' the repr of a typing.Union, which beartype documents as an
    unsupported, inconsistent hint) - in typing.Union[...] and Optional[...] exactly as in X | Y. Not a supported hint: replaced."""
    if h['k'] == 'exo' and h['n'] == 'Alias695Generic':
        return _gen_leaf(rng, hashable)
    return h


def _gen_leaf(rng, hashable):
    r = rng.random()
    if r < 0.08 and not hashable:
        return {'k': 'any'}
    if r < 0.16:
        return {'k': 'none'}
    if r < 0.2 and not hashable:
        return {'k': 'cls', 'n': 'object'}
    return {'k': 'cls', 'n': rng.choice(HASHABLE_LEAVES if hashable else LEAF_CLASSES)}


def _leaf_objs_for(pred):
    return [o for o in LEAF_OBJS if pred(build_obj(o))]


def gen_any_obj(rng, depth=2, hashable=False):
    if depth <= 0 or rng.random() < 0.45:
        o = rng.choice(LEAF_OBJS)
        return o
    n = rng.randint(0, 4)
    kinds = ['tuple', 'frozenset'] if hashable else ['list', 'tuple', 'set', 'frozenset', 'deque', 'dict',
                                                       'defaultdict', 'odict', 'chainmap', 'counter', 'keys', 'values',
                                                       'box', 'listbox', 'pair', 'iterator', 'generator']
    k = rng.choice(kinds)
    if k in ('list', 'tuple', 'deque', 'box', 'listbox', 'iterator', 'generator'):
        return {'o': k, 'i': [gen_any_obj(rng, depth - 1, hashable) for _ in range(n)]}
    if k in ('set', 'frozenset'):
        return {'o': k, 'i': _dedupe([i for i in [gen_any_obj(rng, depth - 1, True) for _ in range(n)] if _hashable(i, None)])}
    if k == 'pair':
        return {'o': k, 'i': [gen_any_obj(rng, depth - 1), gen_any_obj(rng, depth - 1)]}
    if k == 'counter':
        return {'o': k, 'i': _dedupe_items([[gen_any_obj(rng, depth - 1, True), {'o': 'int', 'v': rng.randint(1, 3)}] for _ in range(n)])}
    return {'o': k, 'i': _dedupe_items([[gen_any_obj(rng, depth - 1, True), gen_any_obj(rng, depth - 1)] for _ in range(n)])}


def _dedupe(items):
    out, seen = [], []
    for i in items:
        v = build_obj(i)
        try:
            if any(v == s and type(v) is type(s) or v == s for s in seen):
                continue
        except Exception:
            pass
        seen.append(v)
        out.append(i)
    return out


def _dedupe_items(items):
    out, seen = [], []
    for kk, vv in items:
        v = build_obj(kk)
        if any(v == s for s in seen):
            continue
        seen.append(v)
        out.append([kk, vv])
    return out


class CannotGenerate(Exception):
    pass


def gen_conforming(rng, h, maxlen=4, env=None, depth=0):
    """Object DSL that conforms to ``h`` by construction (cross-checked by ``conforms``)."""
    k = h['k']
    if k == 'cls':
        n = h['n']
        cands = [o for o in LEAF_OBJS if isinstance(build_obj(o), (env or _DEFAULT_ENV).cls(n)) ]
        if n == 'object':
            return gen_any_obj(rng, 1)
        if n in ('list', 'dict', 'tuple', 'set', 'frozenset'):
            return {'o': 'odict' if False else n, 'i': []}
        if n in ('Box', 'ListBox', 'IntTable'):
            return {'o': n.lower(), 'i': []}
        if n == 'Pair':
            return {'o': 'pair', 'i': [{'o': 'none'}, {'o': 'none'}]}
        if n == 'type':
            return {'o': 'clsobj', 'c': 'A'}
        if not cands:
            raise CannotGenerate(h)
        return rng.choice(cands)
    if k == 'none':
        return {'o': 'none'}
    if k == 'any':
        return gen_any_obj(rng, 1)
    if k in ('union', 'pipe'):
        order = list(h['a'])
        rng.shuffle(order)
        for a in order:
            try:
                return gen_conforming(rng, a, maxlen, env, depth + 1)
            except CannotGenerate:
                continue
        raise CannotGenerate(h)
    if k == 'opt':
        if rng.random() < 0.3:
            return {'o': 'none'}
        try:
            return gen_conforming(rng, h['a'][0], maxlen, env, depth + 1)
        except CannotGenerate:
            return {'o': 'none'}
    if k == 'lit':
        m = rng.choice(h['v'])
        return _lit_obj(m)
    if k == 'tuple':
        return {'o': 'tuple', 'i': [gen_conforming(rng, a, maxlen, env, depth + 1) for a in h['a']]}
    n = rng.randint(0, maxlen)
    if k == 'vtuple':
        return {'o': 'tuple', 'i': _gen_items(rng, h['a'][0], n, maxlen, env, depth)}
    if k == 'seq':
        oc = SEQ_ORIGINS[h['o']][1]
        if oc is list or oc is cabc.MutableSequence:
            kind = rng.choice(['list', 'list', 'listbox'] if oc is list else ['list', 'deque', 'listbox'])
        else:
            kind = rng.choice(['list', 'tuple', 'deque', 'listbox'])
        return {'o': kind, 'i': _gen_items(rng, h['a'][0], n, maxlen, env, depth)}
    if k == 'set':
        oc = SET_ORIGINS[h['o']][1]
        if oc is set or oc is cabc.MutableSet:
            kind = 'set'
        elif oc is frozenset:
            kind = 'frozenset'
        elif oc is cabc.Set:
            kind = rng.choice(['set', 'frozenset', 'keys'])
        elif oc is collections.deque:
            kind = 'deque'
        elif oc is cabc.Collection:
            kind = rng.choice(['list', 'tuple', 'deque', 'set', 'frozenset', 'values', 'keys'])
        elif oc is cabc.KeysView:
            kind = 'keys'
        elif oc is cabc.ValuesView:
            kind = 'values'
        else:
            raise CannotGenerate(h)
        return _container_of(rng, kind, h['a'][0], n, maxlen, env, depth)
    if k == 'map':
        oc = MAP_ORIGINS[h['o']][1]
        if oc is dict or oc is cabc.MutableMapping:
            kind = rng.choice(['dict', 'dict', 'odict', 'defaultdict'])
        elif oc is collections.defaultdict:
            kind = 'defaultdict'
        elif oc is collections.OrderedDict:
            kind = 'odict'
        elif oc is collections.ChainMap:
            kind = 'chainmap'
        else:
            kind = rng.choice(['dict', 'odict', 'defaultdict', 'chainmap'])
        ks = [kk for kk in _gen_items(rng, h['a'][0], n, maxlen, env, depth, hashable=True) if _hashable(kk, env)]
        items = _dedupe_items([[kk, gen_conforming(rng, h['a'][1], maxlen, env, depth + 1)] for kk in ks])
        return {'o': kind, 'i': items}
    if k == 'counter':
        ks = [kk for kk in _gen_items(rng, h['a'][0], n, maxlen, env, depth, hashable=True) if _hashable(kk, env)]
        return {'o': 'counter', 'i': _dedupe_items([[kk, {'o': 'int', 'v': rng.randint(1, 4)}] for kk in ks])}
    if k == 'iter':
        oc = ITER_ORIGINS[h['o']][1]
        if oc is cabc.Reversible:
            kind = rng.choice(['list', 'tuple', 'deque', 'odict_keys'])
        elif oc is cabc.Container:
            kind = rng.choice(['list', 'tuple', 'set', 'frozenset', 'deque'])
        else:
            kind = rng.choice(['list', 'tuple', 'set', 'deque', 'values', 'iterator', 'generator'])
        if kind == 'odict_keys':
            kind = 'list'
        return _container_of(rng, kind, h['a'][0], n, maxlen, env, depth)
    if k == 'shallow':
        o = h['o']
        if o == 'ItemsView':
            ks = [kk for kk in _gen_items(rng, h['a'][0], n, maxlen, env, depth, hashable=True) if _hashable(kk, env)]
            return {'o': 'items', 'i': _dedupe_items([[kk, gen_conforming(rng, h['a'][1], maxlen, env, depth + 1)] for kk in ks])}
        kind = 'generator' if o == 'Generator' else rng.choice(['iterator', 'generator'])
        return {'o': kind, 'i': _gen_items(rng, h['a'][0], n, maxlen, env, depth)}
    if k == 'type':
        cands = [o for o in LEAF_OBJS if o['o'] == 'clsobj' and conforms(h, build_obj(o), env=env)]
        if not cands:
            raise CannotGenerate(h)
        return rng.choice(cands)
    if k == 'tv':
        tv = TYPEVARS[h['n']]
        cands = [o for o in LEAF_OBJS if conforms(h, build_obj(o), env=env)]
        return rng.choice(cands)
    if k == 'newtype':
        cands = [o for o in LEAF_OBJS if conforms(h, build_obj(o), env=env)]
        return rng.choice(cands)
    if k == 'ann':
        for _ in range(12):
            o = gen_conforming(rng, h['a'][0], maxlen, env, depth + 1)
            try:
                x = build_obj(o, env)
            except Exception:
                continue
            if all(eval_validator(v, x) for v in h['v']):
                return o
        raise CannotGenerate(h)
    if k == 'exo':
        return rng.choice(EXOTICS[h['n']]['ok'])
    if k == 'proto':
        cands = [o for o in LEAF_OBJS if isinstance(build_obj(o), PROTOS[h['n']])]
        extra = []
        if h['n'] in ('SupportsLenP', 'Sized'):
            extra = [{'o': 'list', 'i': []}, {'o': 'dict', 'i': []}, {'o': 'tuple', 'i': [{'o': 'int', 'v': 1}]}]
        return rng.choice(cands + extra)
    if k == 'gen':
        if h['n'] == 'Box':
            return {'o': 'box', 'i': _gen_items(rng, h['a'][0], n, maxlen, env, depth)}
        if h['n'] == 'ListBox':
            return {'o': 'listbox', 'i': _gen_items(rng, h['a'][0], n, maxlen, env, depth)}
        if h['n'] == 'IntTable':
            vs = _gen_items(rng, h['a'][0], n, maxlen, env, depth)
            return {'o': 'inttable', 'i': [[{'o': 'int', 'v': j}, v] for j, v in enumerate(vs)]}
        if h['n'] == 'Shelf':
            ks = [kk for kk in _gen_items(rng, h['a'][0], n, maxlen, env, depth, hashable=True) if _hashable(kk, env)]
            return {'o': 'shelf', 'i': _dedupe_items([[kk, {'o': 'listbox', 'i': [{'o': 'int', 'v': j} for j in range(rng.randint(0, 3))]}]
                                                      for kk in ks])}
        return {'o': 'pair', 'i': [gen_conforming(rng, h['a'][0], maxlen, env, depth + 1),
                                   gen_conforming(rng, h['a'][1], maxlen, env, depth + 1)]}
    if k == 'ref':
        return {'o': 'inst', 'c': h['n']}
    raise ValueError(h)


def _lit_obj(m):
    if m is None:
        return {'o': 'none'}
    if isinstance(m, bool):
        return {'o': 'bool', 'v': m}
    if isinstance(m, int):
        return {'o': 'int', 'v': m}
    if isinstance(m, str):
        return {'o': 'str', 'v': m}
    if isinstance(m, dict) and 'b' in m:
        return {'o': 'bytes', 'v': m['b']}
    raise ValueError(m)


def _gen_items(rng, h, n, maxlen, env, depth, hashable=False):
    out = []
    for _ in range(n):
        try:
            out.append(gen_conforming(rng, h, max(1, maxlen - 1), env, depth + 1))
        except CannotGenerate:
            break
    return out


def _container_of(rng, kind, h, n, maxlen, env, depth):
    items = _gen_items(rng, h, n, maxlen, env, depth)
    if kind in ('set', 'frozenset', 'keys'):
        items = [i for i in items if _hashable(i, env)]
    if kind in ('set', 'frozenset'):
        return {'o': kind, 'i': _dedupe(items)}
    if kind == 'keys':
        return {'o': 'keys', 'i': _dedupe_items([[i, {'o': 'int', 'v': 0}] for i in items])}
    if kind == 'values':
        return {'o': 'values', 'i': [[{'o': 'int', 'v': j}, i] for j, i in enumerate(items)]}
    return {'o': kind, 'i': items}


def gen_violating_leaf(rng, h, tower=False, env=None):
    """A leaf-ish object that must be rejected by ``h`` (or raise CannotGenerate)."""
    pool = LEAF_OBJS + [{'o': 'list', 'i': []}, {'o': 'tuple', 'i': []}, {'o': 'dict', 'i': []},
                        {'o': 'set', 'i': []}, {'o': 'list', 'i': [{'o': 'int', 'v': 1}]},
                        {'o': 'tuple', 'i': [{'o': 'str', 'v': 'a'}]}, {'o': 'box', 'i': []},
                        {'o': 'deque', 'i': []}, {'o': 'frozenset', 'i': []}]
    cands = []
    for o in pool:
        try:
            if must_reject(h, build_obj(o, env), tower, env):
                cands.append(o)
        except Exception:
            pass
    if not cands:
        raise CannotGenerate(h)
    return rng.choice(cands)


def gen_violating(rng, h, maxlen=4, tower=False, env=None):
    """(object DSL, where) with must_reject(h, obj) by construction, violation placed at a random spot.

    ``where`` names the spot: 'top' | 'tuple_len' | 'tuple_pos' | 'all_items' | 'all_keys' |
    'all_values' | 'validator' | 'literal' | 'inner:<where>'.
    """
    k = h['k']
    choices = ['top']
    if k == 'tuple' and h['a']:
        choices += ['tuple_len', 'tuple_pos', 'tuple_pos']
    if k in ('vtuple', 'seq', 'set', 'iter') or (k == 'gen' and h['n'] == 'ListBox'):
        choices += ['all_items', 'all_items']
    if k == 'map':
        choices += ['all_keys', 'all_values', 'all_values']
    if k == 'gen' and h['n'] == 'Shelf':
        choices += ['shelf_values', 'shelf_values', 'shelf_keys']
    if k == 'gen' and h['n'] == 'IntTable':
        choices += ['inttable_values', 'inttable_values', 'inttable_keys']
    if k == 'counter':
        choices += ['all_keys', 'all_values']
    if k == 'ann':
        choices += ['validator', 'inner']
    if k in ('union', 'pipe', 'opt'):
        choices += ['inner']
    if k == 'exo' and EXOTICS[h['n']].get('bad'):
        choices += ['exo_bad', 'exo_bad', 'exo_bad']
    rng.shuffle(choices)
    for where in choices:
        try:
            o = _gen_violating_at(rng, h, where, maxlen, tower, env)
        except CannotGenerate:
            continue
        if o is not None:
            try:
                ok = must_reject(h, build_obj(o, env), tower, env)
            except Exception:
                ok = False
            if ok:
                return o, where
    raise CannotGenerate(h)


def _gen_violating_at(rng, h, where, maxlen, tower, env):
    k = h['k']
    if where == 'top':
        return gen_violating_leaf(rng, h, tower, env)
    if where == 'exo_bad':
        return rng.choice(EXOTICS[h['n']]['bad'])
    if where in ('inttable_values', 'inttable_keys'):
        items = []
        for j in range(rng.randint(1, maxlen)):
            if where == 'inttable_values':
                items.append([{'o': 'int', 'v': j}, gen_violating(rng, h['a'][0], 2, tower, env)[0]])
            else:
                items.append([{'o': 'str', 'v': 'k%d' % j}, gen_conforming(rng, h['a'][0], 2, env)])
        return {'o': 'inttable', 'i': items}
    if where in ('shelf_values', 'shelf_keys'):
        n = rng.randint(1, maxlen)
        items = []
        for j in range(n):
            if where == 'shelf_values':
                # every value is a ListBox whose items all violate int - of the class the *outer* subscription names, when possible
                kk = gen_conforming(rng, h['a'][0], 2, env)
                bad = [gen_conforming(rng, h['a'][0], 1, env) if not isinstance(build_obj(gen_conforming(rng, h['a'][0], 1, env), env), int)
                       else {'o': 'str', 'v': 'x%d' % j} for _ in range(rng.randint(1, 3))]
                bad = [b for b in bad if not isinstance(build_obj(b, env), int)] or [{'o': 'str', 'v': 'x'}]
                vv = {'o': 'listbox', 'i': bad}
            else:
                kk = gen_violating(rng, h['a'][0], 1, tower, env)[0]
                vv = {'o': 'listbox', 'i': [{'o': 'int', 'v': j}]}
            if _hashable(kk, env):
                items.append([kk, vv])
        items = _dedupe_items(items)
        if not items:
            raise CannotGenerate(h)
        return {'o': 'shelf', 'i': items}
    if where == 'tuple_len':
        n = len(h['a'])
        m = rng.choice([x for x in (n - 1, n + 1, 0) if x >= 0 and x != n])
        items = [gen_conforming(rng, h['a'][i % n], maxlen, env) for i in range(m)]
        return {'o': 'tuple', 'i': items}
    if where == 'tuple_pos':
        n = len(h['a'])
        idxs = list(range(n))
        rng.shuffle(idxs)
        for p in idxs:
            try:
                bad, _ = gen_violating(rng, h['a'][p], maxlen, tower, env)
            except CannotGenerate:
                continue
            items = [gen_conforming(rng, a, maxlen, env) for a in h['a']]
            items[p] = bad
            return {'o': 'tuple', 'i': items}
        raise CannotGenerate(h)
    if where == 'all_items':
        n = rng.randint(1, maxlen)
        child = h['a'][0]
        items = [gen_violating(rng, child, max(1, maxlen - 1), tower, env)[0] for _ in range(n)]
        if k == 'seq' and SEQ_ORIGINS[h['o']][1] is cabc.Sequence and rng.random() < 0.2:
            # a string or bytes object as the sequence: its items (one-character strs / ints) all violate the item hint
            for cand in ({'o': 'str', 'v': 'xyz'}, {'o': 'bytes', 'v': 'bcd'}):
                if must_reject(h, build_obj(cand, env), tower, env):
                    return cand
        base = gen_conforming(rng, h, 0, env)        # right container kind, empty
        kind = base['o']
        if kind in ('iterator', 'generator'):
            kind = 'list'
        if kind in ('set', 'frozenset'):
            items = [i for i in _dedupe(items) if _hashable(i, env)]
            if not items:
                raise CannotGenerate(h)
            return {'o': kind, 'i': items}
        if kind == 'keys':
            items = [i for i in _dedupe(items) if _hashable(i, env)]
            if not items:
                raise CannotGenerate(h)
            return {'o': 'keys', 'i': _dedupe_items([[i, {'o': 'int', 'v': 0}] for i in items])}
        if kind == 'values':
            return {'o': 'values', 'i': [[{'o': 'int', 'v': j}, i] for j, i in enumerate(items)]}
        return {'o': kind, 'i': items}
    if where in ('all_keys', 'all_values'):
        n = rng.randint(1, maxlen)
        base = gen_conforming(rng, h, 0, env)
        kind = base['o']
        vh = h['a'][1] if k == 'map' else _INT
        items = []
        for _ in range(n):
            if where == 'all_keys':
                kk = gen_violating(rng, h['a'][0], 1, tower, env)[0]
                if not _hashable(kk, env):
                    continue
                vv = gen_conforming(rng, vh, 2, env)
            else:
                kk = gen_conforming(rng, h['a'][0], 2, env)
                vv = None
                if k == 'counter' and rng.random() < 0.6:
                    # a count that is no int but conforms to the *key* hint (explainer and checker must both use int)
                    vv = gen_conforming(rng, h['a'][0], 2, env)
                    try:
                        if not must_reject(_INT, build_obj(vv, env), tower, env):
                            vv = None
                    except Exception:
                        vv = None
                if vv is None:
                    vv = gen_violating(rng, vh, 2, tower, env)[0]
            items.append([kk, vv])
        items = _dedupe_items(items)
        if not items:
            raise CannotGenerate(h)
        return {'o': kind, 'i': items}
    if where == 'validator':
        for _ in range(12):
            o = gen_conforming(rng, h['a'][0], maxlen, env)
            x = build_obj(o, env)
            if not all(eval_validator(v, x) for v in h['v']):
                return o
        raise CannotGenerate(h)
    if where == 'inner':
        if k == 'ann':
            return gen_violating(rng, h['a'][0], maxlen, tower, env)[0]
        # union: an object every member must reject, built from one member's violation
        members = h['a'] if k != 'opt' else [h['a'][0], {'k': 'none'}]
        for _ in range(8):
            m = rng.choice(members)
            try:
                o, _ = gen_violating(rng, m, maxlen, tower, env)
            except CannotGenerate:
                continue
            if must_reject(h, build_obj(o, env), tower, env):
                return o
        raise CannotGenerate(h)
    raise ValueError(where)


def _hashable(o, env):
    try:
        hash(build_obj(o, env))
        return True
    except TypeError:
        return False


def gen_one_bad(rng, h, maxlen=6, env=None):
    """For a hint whose *top level* is a randomly sampled sequence (list/Sequence/MutableSequence/variadic tuple):
    (object DSL, index) where exactly the item at ``index`` must be rejected and all others conform."""
    k = h['k']
    if k not in ('seq', 'vtuple', 'iter'):
        raise CannotGenerate(h)
    child = h['a'][0]
    n = rng.randint(2, maxlen)
    i = rng.randrange(n)
    bad, _ = gen_violating(rng, child, 2, False, env)
    items = []
    for j in range(n):
        items.append(bad if j == i else gen_conforming(rng, child, 2, env))
    for j, it in enumerate(items):
        x = build_obj(it, env)
        if (j == i) != bool(must_reject(child, x, False, env)) or (j != i and not conforms(child, x, False, env)):
            raise CannotGenerate(h)
    if k == 'vtuple':
        return {'o': 'tuple', 'i': items}, i
    if k == 'iter':
        # quasi-iterables sample a random item when the object is a sequence
        return {'o': rng.choice(['list', 'tuple']), 'i': items}, i
    oc = SEQ_ORIGINS[h['o']][1]
    kind = 'list' if oc in (list, cabc.MutableSequence) else rng.choice(['list', 'tuple'])
    return {'o': kind, 'i': items}, i


def seq_lengths(h, o):
    """Lengths of all sequence levels reachable in object DSL ``o`` under hint ``h`` (for effective draws)."""
    out = []

    def walk(o):
        if isinstance(o, dict):
            if o.get('o') in ('list', 'tuple', 'deque', 'listbox') and o.get('i'):
                out.append(len(o['i']))
            for v in o.get('i', []) if isinstance(o.get('i'), list) else []:
                if isinstance(v, list):
                    for w in v:
                        walk(w)
                else:
                    walk(v)
    walk(o)
    return out


def effective_draws(rng, lengths, cap=120, extra_random=4):
    import math
    l = 1
    for n in lengths:
        if n > 0:
            l = l * n // math.gcd(l, n)
            if l > cap:
                l = cap
                break
    draws = list(range(min(l, cap)))
    draws += [2 ** 31, 2 ** 32 - 1]
    draws += [rng.getrandbits(32) for _ in range(extra_random)]
    return draws


def hint_size(h):
    n = 1
    for a in h.get('a', []) or []:
        if isinstance(a, dict):
            n += hint_size(a)
    return n
