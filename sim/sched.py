"""Deterministic thread scheduler for beartype (baton passing over real threads).

Exactly one simulated task owns the baton at any time. Pre-emption points are
``sys.settrace`` *line* events in frames that belong to beartype (files under
``.../beartype/``) or to code beartype generated (``<@beartype(...)``), plus any
extra filename predicates the engine asks for. At each point the schedule
source -- a seeded strategy when exploring, an explicit switch list when
replaying -- decides whether to hand the baton to another task.

All beartype locks are ``SimLock`` objects (see :mod:`sim.boot`); a task that
meets a held ``SimLock`` is parked and the baton moves on; "nobody runnable
while somebody unfinished" is reported as a deadlock, not discovered by a
time-out.

Nothing in here draws from a PRNG or reads a clock while logging.
"""
import _imp
import _thread
import sys
import os
import threading
import time
import zlib

_get_ident = _thread.get_ident

# The scheduler currently running (at most one per process).
ACTIVE = None


_exists = os.path.exists


def _os_thread_count():
    try:
        return len(os.listdir('/proc/self/task'))
    except OSError:
        return 0


class Deadlock(BaseException):
    pass


class StepCapExceeded(BaseException):
    """Raised *inside* every simulated task once the run exceeds its step cap, so that a
    livelock ends the run instead of hanging it."""


_ALL_LOCKS = []         # every SimLock ever created (they live as long as beartype does)


class SimLockBase:
    """Lock that is a simulator lock inside a simulation and a real one outside."""
    _reentrant = False

    def __init__(self):
        self._real = _thread.RLock() if self._reentrant else _thread.allocate_lock()
        self._owner = None      # simulated task holding it
        self._count = 0
        self._waiters = []
        _ALL_LOCKS.append(self)

    def _sim_reset(self):
        self._owner = None
        self._count = 0
        self._waiters = []

    # -- real-world fallbacks ------------------------------------------------
    def _task(self):
        s = ACTIVE
        if s is None:
            return None, None
        return s, s.by_ident.get(_get_ident())

    def acquire(self, blocking=True, timeout=-1):
        s, me = self._task()
        if me is None:
            return self._real.acquire(blocking, timeout)
        s.stats['lock_acquire'] += 1
        while True:
            if self._owner is None:
                self._owner = me
                self._count = 1
                return True
            if self._owner is me:
                if self._reentrant:
                    self._count += 1
                    return True
                # Non-reentrant self-acquire: a certain deadlock.
                if not blocking:
                    return False
                s.block(me, self)   # never returns normally if nobody else can free it
                continue
            if not blocking:
                return False
            s.stats['lock_contended'] += 1
            s.block(me, self)

    def release(self):
        s, me = self._task()
        if me is None:
            return self._real.release()
        if self._owner is not me:
            raise RuntimeError('release of un-owned SimLock')
        self._count -= 1
        if self._count == 0:
            self._owner = None
            s.wake(self)

    def locked(self):
        s, me = self._task()
        if me is None:
            if self._reentrant:
                if self._real.acquire(False):
                    self._real.release()
                    return False
                return True
            return self._real.locked()
        return self._owner is not None

    def __enter__(self):
        self.acquire()
        return self

    def __exit__(self, *a):
        self.release()

    def _at_fork_reinit(self):
        self.__init__()


class SimLock(SimLockBase):
    _reentrant = False


class SimRLock(SimLockBase):
    _reentrant = True


def sim_lock_factory():
    return SimLock()


def sim_rlock_factory():
    return SimRLock()


class _PoolThread:
    """One OS thread of the persistent pool the simulated tasks run on.

    Task threads are never created or destroyed while runs are in progress: a thread that exits gives its thread state
    back to malloc at a moment that depends on real time, and the addresses - hence hashes, hence the order of beartype's
    sets of types and the probe order of its memo tables - of whatever is allocated next would depend on it. Pool threads
    block on ``job_lock`` between runs; a thread whose task never finishes (deadlock) is simply lost to the pool."""

    def __init__(self):
        self.job_lock = _thread.allocate_lock()
        self.job_lock.acquire()
        self.job = None
        self.idle = True
        self.ident = None
        self.thread = threading.Thread(target=self._loop, name='sim-pool', daemon=True)
        self.thread.start()
        while self.ident is None:
            time.sleep(0.0001)

    def _loop(self):
        self.ident = _get_ident()
        while True:
            self.job_lock.acquire()
            job, self.job = self.job, None
            try:
                job()
            except BaseException:       # noqa  (jobs catch everything themselves)
                pass
            self.idle = True

    def submit(self, job):
        self.idle = False
        self.job = job
        self.job_lock.release()


_POOL = []


def _pool_take(n):
    out = [p for p in _POOL if p.idle][:n]
    while len(out) < n:
        p = _PoolThread()
        _POOL.append(p)
        out.append(p)
    return out


class Task:
    __slots__ = ('tid', 'fn', 'baton', 'state', 'result', 'error', 'thread',
                 'blocked_on', 'prio', 'import_depth')

    def __init__(self, tid, fn):
        self.tid = tid
        self.fn = fn
        self.baton = _thread.allocate_lock()
        self.baton.acquire()
        self.state = 'runnable'      # runnable | blocked | done
        self.result = None
        self.error = None
        self.thread = None
        self.blocked_on = None
        self.prio = 0
        self.import_depth = 0


def default_interest(filename):
    return ('/beartype/' in filename and '/beartype_test/' not in filename) \
        or filename.startswith('<@beartype')


class Scheduler:
    """One simulated multi-threaded run.

    ``strategy``: dict, one of
      {'kind': 'uniform', 'p': float}
      {'kind': 'hot', 'p_hot': float, 'p_cold': float, 'hot': [substr, ...]}
      {'kind': 'pct', 'd': int, 'est_steps': int}
      {'kind': 'afterhot', 'hot': [substr, ...], 'window': int, 'p_after': float, 'p_hot': float, 'p_cold': float}
                                                                       (switch in the window right after a task leaves the hot region)
      {'kind': 'hotpct', 'points': [int, ...], 'hot': [substr, ...]}   (switch at the n-th hot-region line events, elsewhere with probability p_cold)
      {'kind': 'replay', 'switches': [[step, tid], ...]}
      {'kind': 'serial'}              (never pre-empt; run tasks in tid order)
    ``rng``: random.Random used by the exploring strategies only.
    """

    def __init__(self, strategy, rng=None, step_cap=300000, interest=None,
                 preempt_in_import=False, extra_interest=None):
        self.strategy = strategy
        self.kind = strategy['kind']
        self.rng = rng
        self.step_cap = step_cap
        self.tasks = []
        self.by_ident = {}
        self.current = None
        self.step = 0
        self.switches = []          # recorded [(step, tid)]
        self.digest = 0
        self.stats = {'lock_acquire': 0, 'lock_contended': 0, 'preempt': 0,
                      'forced': 0, 'import_lock_skips': 0}
        self.capped = False
        self.deadlock = None
        self.preempt_in_import = preempt_in_import
        self._interest = interest or default_interest
        self._extra = extra_interest
        self._fncache = {}          # code object -> (interesting, crc, hot)
        self._main_baton = _thread.allocate_lock()
        self._main_baton.acquire()
        self._replay = None
        self._replay_i = 0
        self.pairs = set()          # (crc_from, line_from, crc_to, line_to) of switches
        self._last_loc = {}
        self.on_step = None         # optional callback(step) -> None (crash fault)
        if self.kind == 'replay':
            self._replay = [(x[0], x[1], x[2] if len(x) > 2 else 0) for x in strategy['switches']]
        if self.kind in ('hot', 'hotpct', 'afterhot'):
            self._hot = tuple(strategy['hot'])
        else:
            self._hot = ()
        self._after = {}            # tid -> line events left in the window that follows the task's last hot-region line
        self._hot_events = 0
        self._hot_points = set(strategy.get('points', ())) if self.kind == 'hotpct' else ()
        self._pct_points = None

    # ------------------------------------------------------------------ API
    def run(self, fns):
        """Run callables as simulated tasks; returns the Task list."""
        global ACTIVE
        assert ACTIVE is None
        for l in _ALL_LOCKS:
            l._sim_reset()
        self.tasks = [Task(i, fn) for i, fn in enumerate(fns)]
        if self.kind == 'pct':
            n = len(self.tasks)
            d = self.strategy.get('d', 2)
            prios = list(range(d + 1, d + 1 + n))
            self.rng.shuffle(prios)
            for t, p in zip(self.tasks, prios):
                t.prio = p
            est = max(10, self.strategy.get('est_steps', 2000))
            self._pct_points = {}
            for k in range(d):
                self._pct_points[self.rng.randrange(1, est)] = d - k
        ACTIVE = self
        try:
            # wait until the pool threads of the previous run are back at their job locks (normally they already are)
            deadline = time.monotonic() + 2.0
            while any((not p.idle) and getattr(p, 'expected_idle', False) for p in _POOL) and time.monotonic() < deadline:
                time.sleep(0.0001)
            pool = _pool_take(len(self.tasks))
            for t, p in zip(self.tasks, pool):
                t.thread = p
                p.expected_idle = False
                self.by_ident[p.ident] = t
                p.submit(lambda t=t: self._task_main(t))
            first = self._pick_initial()
            self.current = first
            self.switches.append((0, first.tid, 1))
            first.baton.release()
            self._main_baton.acquire()      # until all done / deadlock
            for t in self.tasks:
                if t.state == 'done':
                    t.thread.expected_idle = True
        finally:
            ACTIVE = None
        return self.tasks

    # ----------------------------------------------------------- internals
    def _task_main(self, t):
        t.baton.acquire()
        sys.settrace(self._trace_global)
        try:
            t.result = t.fn()
        except Deadlock:
            return
        except StepCapExceeded:
            t.error = None
        except BaseException as e:          # noqa
            t.error = e
        finally:
            sys.settrace(None)
        t.state = 'done'
        self._leave(t)

    def _leave(self, t):
        # Task finished: hand the baton on (forced switch).
        nxt = self._pick_forced(t)
        if nxt is None:
            if any(x.state == 'blocked' for x in self.tasks):
                self.deadlock = [(x.tid, x.state) for x in self.tasks]
                # Unpark blocked threads so that they can die.
                self._abort_blocked()
            self._main_baton.release()
            return
        self.current = nxt
        nxt.baton.release()

    def _abort_blocked(self):
        # Blocked threads are daemon threads parked on batons; leave them.
        pass

    def _runnable(self, exclude=None):
        return [x for x in self.tasks if x.state == 'runnable' and x is not exclude]

    def _pick_initial(self):
        if self.kind == 'replay':
            if self._replay and self._replay[0][0] == 0 and self._replay[0][2] \
                    and self._replay[0][1] < len(self.tasks):
                tid = self._replay[0][1]
                self._replay_i = 1
                return self.tasks[tid]
            return self.tasks[0]
        if self.kind == 'serial':
            return self.tasks[0]
        if self.kind == 'pct':
            return max(self.tasks, key=lambda x: x.prio)
        return self.rng.choice(self.tasks)

    def _pick_forced(self, me):
        cands = self._runnable(exclude=me)
        if not cands:
            return None
        self.stats['forced'] += 1
        if self.kind == 'replay':
            tid = None
            rp = self._replay
            i = self._replay_i
            # skip stale pre-emption entries, consume one forced entry
            while i < len(rp) and rp[i][0] <= self.step and not rp[i][2]:
                i += 1
            if i < len(rp) and rp[i][0] <= self.step and rp[i][2]:
                tid = rp[i][1]
                i += 1
            self._replay_i = i
            nxt = None
            if tid is not None and tid < len(self.tasks) and self.tasks[tid] in cands:
                nxt = self.tasks[tid]
            if nxt is None:
                nxt = cands[0]
        elif self.kind == 'serial' or self.capped:
            nxt = cands[0]
        elif self.kind == 'pct':
            nxt = max(cands, key=lambda x: x.prio)
        else:
            nxt = self.rng.choice(cands)
        self.switches.append((self.step, nxt.tid, 1))
        return nxt

    def block(self, me, lock):
        """Called by SimLock when ``me`` must wait for ``lock``."""
        me.state = 'blocked'
        me.blocked_on = lock
        lock._waiters.append(me)
        nxt = self._pick_forced(me)
        if nxt is None:
            self.deadlock = [(x.tid, x.state) for x in self.tasks]
            self._main_baton.release()
            # Park forever (daemon thread); the child process exits anyway.
            me.baton.acquire()
            raise Deadlock()
        self.current = nxt
        nxt.baton.release()
        me.baton.acquire()
        if self.deadlock is not None:
            raise Deadlock()
        if self.capped:
            raise StepCapExceeded()

    def wake(self, lock):
        if lock._waiters:
            for w in lock._waiters:
                w.state = 'runnable'
                w.blocked_on = None
            lock._waiters = []

    # -- tracing ---------------------------------------------------------
    def _classify(self, code):
        fn = code.co_filename
        it = self._interest(fn) or (self._extra is not None and self._extra(fn, code.co_name))
        hot = False
        if it and self._hot:
            for h in self._hot:
                if h in fn:
                    hot = True
                    break
        base = fn.rsplit('/', 1)[-1]
        if base.startswith('<@beartype'):
            base = base.split(' at 0x', 1)[0]       # generated code: drop the address
        r = (bool(it), zlib.crc32(base.encode()) & 0xffff, hot)
        self._fncache[code] = r
        return r

    def _trace_global(self, frame, event, arg):
        if event != 'call':
            return None
        code = frame.f_code
        if code.co_name == '_find_and_load' and code.co_filename == '<frozen importlib._bootstrap>':
            me = self.by_ident.get(_get_ident())
            if me is not None:
                me.import_depth += 1
                return self._trace_import
            return None
        c = self._fncache.get(code)
        if c is None:
            c = self._classify(code)
        if c[0]:
            return self._trace_local
        return None

    def _trace_import(self, frame, event, arg):
        if event == 'return':
            me = self.by_ident.get(_get_ident())
            if me is not None and me.import_depth > 0:
                me.import_depth -= 1
        return self._trace_import

    def _trace_local(self, frame, event, arg):
        if event == 'line':
            self._yield_point(frame)
        return self._trace_local

    def _yield_point(self, frame):
        me = self.by_ident.get(_get_ident())
        if me is None or me is not self.current:
            return
        self.step += 1
        step = self.step
        code = frame.f_code
        c = self._fncache.get(code) or self._classify(code)
        line = frame.f_lineno
        self.digest = ((self.digest * 1000003) ^ (me.tid << 28) ^ (c[1] << 12) ^ line) & 0xFFFFFFFFFFFF
        if self.on_step is not None:
            self.on_step(step)
        if self.capped:
            raise StepCapExceeded()
        if step > self.step_cap:
            self.capped = True
            # wake everybody parked on a simulator lock: they raise StepCapExceeded as well
            for x in self.tasks:
                if x.state == 'blocked':
                    x.state = 'runnable'
            raise StepCapExceeded()
        kind = self.kind
        target = None
        if kind == 'replay':
            rp = self._replay
            i = self._replay_i
            if i < len(rp) and rp[i][0] <= step and not rp[i][2]:
                # consume exactly one pre-emption entry per yield point
                tid = rp[i][1]
                self._replay_i = i + 1
                if tid is not None and tid < len(self.tasks):
                    t = self.tasks[tid]
                    if t is not me and t.state == 'runnable':
                        target = t
        elif kind == 'serial':
            return
        elif kind == 'pct':
            pp = self._pct_points.get(step)
            if pp is not None:
                me.prio = pp
            best = me
            for x in self.tasks:
                if x.state == 'runnable' and x.prio > best.prio:
                    best = x
            if best is not me:
                target = best
        elif kind == 'afterhot':
            # switch, with probability p_after, at the first `window` line events a task executes *after leaving* the hot
            # region (e.g. right after a pool release / acquire returned: the use-after-release and acquire-to-first-use windows)
            if c[2]:
                self._after[me.tid] = self.strategy.get('window', 2)
                p = self.strategy.get('p_hot', 0.0)
            else:
                left = self._after.get(me.tid, 0)
                if left > 0:
                    self._after[me.tid] = left - 1
                    p = self.strategy.get('p_after', 0.5)
                else:
                    p = self.strategy.get('p_cold', 0.0)
            if p > 0.0 and self.rng.random() < p:
                cands = self._runnable(exclude=me)
                if cands:
                    target = cands[0] if len(cands) == 1 else self.rng.choice(cands)
        elif kind == 'hotpct':
            # switch exactly at the chosen ordinal numbers of hot-region line events, nowhere else
            fire = False
            if c[2]:
                self._hot_events += 1
                fire = self._hot_events in self._hot_points
            if not fire:
                pc = self.strategy.get('p_cold', 0.0)
                fire = pc > 0.0 and self.rng.random() < pc
            if fire:
                cands = self._runnable(exclude=me)
                if cands:
                    target = cands[0] if len(cands) == 1 else self.rng.choice(cands)
        else:
            if kind == 'hot':
                p = self.strategy['p_hot'] if c[2] else self.strategy['p_cold']
            else:
                p = self.strategy['p']
            if self.rng.random() < p:
                cands = self._runnable(exclude=me)
                if cands:
                    target = cands[0] if len(cands) == 1 else self.rng.choice(cands)
        if target is None:
            return
        if _imp.lock_held() or (me.import_depth and not self.preempt_in_import):
            self.stats['import_lock_skips'] += 1
            return
        # Pre-empt.
        self.stats['preempt'] += 1
        self.switches.append((step, target.tid, 0))
        last = self._last_loc.get(target.tid, (0, 0))
        if len(self.pairs) < 20000:
            self.pairs.add((c[1], line, last[0], last[1]))
        self._last_loc[me.tid] = (c[1], line)
        self.current = target
        target.baton.release()
        me.baton.acquire()
        if self.deadlock is not None:
            raise Deadlock()
        if self.capped:
            raise StepCapExceeded()
