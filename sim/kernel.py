"""Simulation kernel: seed streams, fork-per-run executor, driver, evidence,
replay files, minimisation loop and the known-findings protocol.

Process model (DESIGN.md section 3.3)::

    driver (boot()ed, pristine, never executes a beartype operation)
      +- N pool workers (forked from the driver, pristine as well)
           +- one forked child per simulated run (or per oracle query)

Exit codes of a check: 0 held / 1 violation / 2 harness problem.
"""
import concurrent.futures as cf
import faulthandler
import hashlib
import json
import multiprocessing as mp
import os
import pickle
import random
import select
import shutil
import signal
import sys
import tempfile
import time
import traceback

VERIF = os.path.dirname(os.path.dirname(os.path.abspath(__file__)))
EVIDENCE_DIR = os.environ.get('VERIF_EVIDENCE_DIR') or os.path.join(VERIF, 'evidence')
REPLAY_DIR = os.path.join(VERIF, 'replays')
KNOWN_FILE = os.path.join(VERIF, 'known_findings.json')

CHILD_TIMEOUT = float(os.environ.get('VERIF_CHILD_TIMEOUT', '90'))
RUN_TIMEOUT = float(os.environ.get('VERIF_RUN_TIMEOUT', '40'))


# ----------------------------------------------------------------- seed streams
def stream(seed, *names):
    """Independent PRNG stream derived from the master seed and a name path."""
    h = hashlib.sha256(('/'.join([str(seed)] + [str(n) for n in names])).encode()).digest()
    return random.Random(int.from_bytes(h[:16], 'big'))


def stable_hash(obj):
    return hashlib.sha256(json.dumps(obj, sort_keys=True, default=repr).encode()).hexdigest()[:16]


# ----------------------------------------------------------------- fork per run
class ChildError(Exception):
    pass


def spawn(fn, arg, timeout=None, quiet=True):
    """Run ``fn(arg)`` in a forked child of this (pristine) process.

    Returns the child's return value, or a dict ``{'harness': reason}`` when the
    child crashed, timed out or raised.
    """
    timeout = timeout or CHILD_TIMEOUT
    r, w = os.pipe()
    sys.stdout.flush()
    sys.stderr.flush()
    pid = os.fork()
    if pid == 0:
        status = 0
        try:
            os.close(r)
            if quiet and not os.environ.get('VERIF_DEBUG'):
                dn = os.open(os.devnull, os.O_WRONLY)
                os.dup2(dn, 1)
                os.dup2(dn, 2)
            else:
                faulthandler.dump_traceback_later(timeout - 5 if timeout > 10 else timeout, exit=False)
            try:
                out = fn(arg)
            except BaseException as e:       # noqa
                out = {'harness': 'exception', 'exc': repr(e)[:500],
                       'tb': traceback.format_exc()[-3000:]}
            data = pickle.dumps(out, protocol=4)
            mv = memoryview(data)
            while mv:
                n = os.write(w, mv)
                mv = mv[n:]
        except BaseException:               # noqa
            status = 3
        finally:
            os._exit(status)
    os.close(w)
    chunks = []
    deadline = time.monotonic() + timeout
    timed_out = False
    try:
        while True:
            left = deadline - time.monotonic()
            if left <= 0:
                timed_out = True
                break
            rl, _, _ = select.select([r], [], [], min(left, 5.0))
            if not rl:
                continue
            b = os.read(r, 1 << 16)
            if not b:
                break
            chunks.append(b)
    finally:
        os.close(r)
    if timed_out:
        try:
            os.kill(pid, signal.SIGKILL)
        except OSError:
            pass
    try:
        _, st = os.waitpid(pid, 0)
    except ChildProcessError:
        st = 0
    if timed_out:
        return {'harness': 'timeout'}
    data = b''.join(chunks)
    if not data:
        # The child exited without reporting (e.g. an injected crash).
        return {'harness': 'noreport', 'status': st}
    try:
        return pickle.loads(data)
    except Exception as e:                  # noqa
        return {'harness': 'unpickle', 'exc': repr(e)}


def spawn_stream(fn, arg, item_timeout):
    """Like ``spawn`` but the child calls ``fn(arg, emit)`` and every ``emit(obj)`` is delivered
    as soon as it is made; returns ``(items, status)`` with status 'ok' | 'timeout' | 'died'.
    The time-out applies between two consecutive items."""
    import struct
    r, w = os.pipe()
    sys.stdout.flush()
    sys.stderr.flush()
    pid = os.fork()
    if pid == 0:
        status = 0
        try:
            os.close(r)
            if not os.environ.get('VERIF_DEBUG'):
                dn = os.open(os.devnull, os.O_WRONLY)
                os.dup2(dn, 1)
                os.dup2(dn, 2)

            def emit(obj):
                data = pickle.dumps(obj, protocol=4)
                mv = memoryview(struct.pack('<I', len(data)) + data)
                while mv:
                    n = os.write(w, mv)
                    mv = mv[n:]
            try:
                fn(arg, emit)
                emit({'__end__': True})
            except BaseException as e:       # noqa
                emit({'__end__': True, 'harness': 'exception', 'exc': repr(e)[:500],
                      'tb': traceback.format_exc()[-3000:]})
        except BaseException:               # noqa
            status = 3
        finally:
            os._exit(status)
    os.close(w)
    items = []
    buf = b''
    status = 'died'
    deadline = time.monotonic() + item_timeout
    try:
        while True:
            left = deadline - time.monotonic()
            if left <= 0:
                status = 'timeout'
                break
            rl, _, _ = select.select([r], [], [], min(left, 5.0))
            if not rl:
                continue
            b = os.read(r, 1 << 16)
            if not b:
                break
            buf += b
            done = False
            while len(buf) >= 4:
                n = struct.unpack('<I', buf[:4])[0]
                if len(buf) < 4 + n:
                    break
                obj = pickle.loads(buf[4:4 + n])
                buf = buf[4 + n:]
                deadline = time.monotonic() + item_timeout
                if isinstance(obj, dict) and obj.get('__end__'):
                    status = 'ok' if not obj.get('harness') else 'exception'
                    if obj.get('harness'):
                        items.append(obj)
                    done = True
                    break
                items.append(obj)
            if done:
                break
    finally:
        os.close(r)
    if status == 'timeout':
        try:
            os.kill(pid, signal.SIGKILL)
        except OSError:
            pass
    try:
        os.waitpid(pid, 0)
    except ChildProcessError:
        pass
    return items, status


# ----------------------------------------------------------------- known findings
def load_known(prop_id):
    if not os.path.exists(KNOWN_FILE):
        return []
    with open(KNOWN_FILE) as f:
        data = json.load(f)
    return [k for k in data.get('findings', []) if k.get('property') == prop_id
            and k.get('status', 'known') == 'known']


def match_known(mod, known, case, violation):
    sigs = getattr(mod, 'SIGNATURES', {})
    for k in known:
        pred = sigs.get(k['signature'])
        if pred is None:
            continue
        try:
            if pred(case, violation):
                return k
        except Exception:
            continue
    return None


# ----------------------------------------------------------------- worker side
_MOD = None
_TIER = None
_SEED = None
_SCRATCH = None


def _load_prop(prop_id):
    import importlib
    if VERIF not in sys.path:
        sys.path.insert(0, VERIF)
    return importlib.import_module('props.' + prop_id.lower())


def run_one(mod, case):
    """Execute one case from a pristine process; returns the outcome dict."""
    rc = getattr(mod, 'run_case', None)
    if rc is not None:
        out = rc(case, spawn)
    else:
        out = spawn(mod.execute, case)
    if not isinstance(out, dict):
        out = {'harness': 'badoutcome', 'value': repr(out)[:200]}
    return out


_PINNED = False


def _pin():
    # Keep a worker and everything it forks on one CPU: only one simulated thread runs at a
    # time anyway, and cross-CPU TLB shootdowns / wake-up IPIs are very expensive in this VM.
    global _PINNED
    if _PINNED or os.environ.get('VERIF_NOPIN'):
        return
    _PINNED = True
    try:
        import multiprocessing as _mp
        ident = _mp.current_process()._identity
        k = (ident[0] - 1) if ident else 0
        cpus = sorted(os.sched_getaffinity(0))
        os.sched_setaffinity(0, {cpus[k % len(cpus)]})
    except Exception:
        pass
    try:
        import threading
        threading.stack_size(512 * 1024)
    except Exception:
        pass


def _gen_case(mod, prop_id, seed, run, tier, scratch):
    rng = stream(seed, prop_id, 'gen', run)
    case = mod.generate(rng, run, tier)
    case.setdefault('run', run)
    case.setdefault('seed', seed)
    if scratch:
        case['scratch'] = os.path.join(scratch, 'r%d' % run)
    return case


def _finish(out, case, run, t0, nres, scratch):
    if not isinstance(out, dict):
        out = {'harness': 'badoutcome', 'value': repr(out)[:200]}
    out['run'] = run
    out['wall'] = time.time() - t0
    if scratch:
        shutil.rmtree(case['scratch'], ignore_errors=True)
    if out.get('violation') or out.get('harness') or run % 97 == 0 or nres < 2:
        out['case'] = case
    return out


def inproc_spawn(fn, arg, timeout=None, quiet=True):
    """``spawn`` replacement inside a batch child: call in-process, then restore pristine state."""
    from . import state
    try:
        out = fn(arg)
    except BaseException as e:       # noqa
        out = {'harness': 'exception', 'exc': repr(e)[:500], 'tb': traceback.format_exc()[-3000:]}
    try:
        state.restore()
    except BaseException as e:       # noqa
        out = {'harness': 'restore', 'exc': repr(e)[:500], 'tb': traceback.format_exc()[-3000:]}
    return out


def _batch_child(args, emit):
    """Forked from a pristine worker: executes several runs, restoring state between them."""
    import gc
    from . import state
    prop_id, tier, seed, runs, deadline, scratch = args
    mod = _load_prop(prop_id)
    gc.disable()
    res = []
    leaks_total = []
    verify_at = 1
    for n, run in enumerate(runs):
        if time.time() > deadline:
            break
        try:
            case = _gen_case(mod, prop_id, seed, run, tier, scratch)
        except Exception:
            emit({'run': run, 'harness': 'generate', 'tb': traceback.format_exc()[-2000:]})
            continue
        t0 = time.time()
        out = mod.run_case(case, inproc_spawn) if hasattr(mod, 'run_case') else inproc_spawn(mod.execute, case)
        out = _finish(out, case, run, t0, n, scratch)
        emit(out)
        if n % 16 == 15:
            gc.collect()
        if out.get('poisoned'):
            break


def worker_main(argv):
    """Entry of a chunk worker: a *fresh interpreter* per chunk (``check.py --worker ...``).

    Fresh interpreters (instead of a long-lived pool) give every chunk the same process history,
    hence the same allocation addresses with address-space randomisation off, and avoid sharing one
    booted parent's anon_vma root lock among all workers. Results are streamed as length-prefixed
    pickles on the file descriptor given in argv."""
    import struct
    spec = json.loads(argv[0])
    fd = spec['fd']
    cpu = spec.get('cpu')
    if cpu is not None and not os.environ.get('VERIF_NOPIN'):
        try:
            os.sched_setaffinity(0, {cpu})
        except Exception:
            pass
    try:
        import threading
        threading.stack_size(512 * 1024)
    except Exception:
        pass
    if not os.environ.get('VERIF_DEBUG'):
        dn = os.open(os.devnull, os.O_WRONLY)
        os.dup2(dn, 1)
        os.dup2(dn, 2)
    from . import boot, state, selftest
    boot.boot()
    selftest.apply_mutant_from_env()
    state.snapshot()

    def emit(obj):
        data = pickle.dumps(obj, protocol=4)
        mv = memoryview(struct.pack('<I', len(data)) + data)
        while mv:
            n = os.write(fd, mv)
            mv = mv[n:]
    prop_id, tier, seed = spec['prop'], spec['tier'], spec['seed']
    runs, deadline, scratch = spec['runs'], spec['deadline'], spec.get('scratch')
    mod = _load_prop(prop_id)
    try:
        if getattr(mod, 'BATCH', False) and not os.environ.get('VERIF_NOBATCH'):
            _batch_child((prop_id, tier, seed, runs, deadline, scratch), emit)
        else:
            for n, run in enumerate(runs):
                if time.time() > deadline:
                    break
                try:
                    case = _gen_case(mod, prop_id, seed, run, tier, scratch)
                except Exception:
                    emit({'run': run, 'harness': 'generate', 'tb': traceback.format_exc()[-2000:]})
                    continue
                t0 = time.time()
                out = run_one(mod, case)
                emit(_finish(out, case, run, t0, n, scratch))
        emit({'__end__': True})
    except BaseException as e:       # noqa
        emit({'__end__': True, 'harness': 'exception', 'exc': repr(e)[:500], 'tb': traceback.format_exc()[-3000:]})
    os._exit(0)


class _Worker:
    """Driver-side handle of one chunk worker process."""

    def __init__(self, driver, runs, deadline, scratch, cpu, tag):
        import subprocess
        self.driver = driver
        self.todo = list(runs)
        self.deadline = deadline
        self.scratch = scratch
        self.cpu = cpu
        self.tag = tag
        self.results = []
        self.proc = None
        self.finished = False
        self._start()

    def _start(self):
        import subprocess
        r, w = os.pipe()
        spec = {'fd': w, 'cpu': self.cpu, 'prop': self.driver.prop_id, 'tier': self.driver.tier,
                'seed': self.driver.seed, 'runs': self.todo, 'deadline': self.deadline, 'scratch': self.scratch}
        self.proc = subprocess.Popen([sys.executable, '-B', os.path.join(VERIF, 'check.py'), '--worker', json.dumps(spec)],
                                     pass_fds=(w,), close_fds=True, cwd=VERIF)
        os.close(w)
        self.r = r
        self.buf = b''
        self.last = time.monotonic()
        self.booted = False

    def fileno(self):
        return self.r

    def on_readable(self):
        import struct
        b = os.read(self.r, 1 << 16)
        if not b:
            self._ended('died')
            return
        self.buf += b
        while len(self.buf) >= 4:
            n = struct.unpack('<I', self.buf[:4])[0]
            if len(self.buf) < 4 + n:
                break
            obj = pickle.loads(self.buf[4:4 + n])
            self.buf = self.buf[4 + n:]
            self.last = time.monotonic()
            if isinstance(obj, dict) and obj.get('__end__'):
                if obj.get('harness') and self.todo:
                    self.results.append({'run': self.todo[0], 'harness': 'worker-exception', 'tb': obj.get('tb', '')})
                    self.todo = self.todo[1:]
                    self._ended('exception')
                else:
                    self._ended('ok')
                return
            if 'run' in obj:
                self.results.append(obj)
                if obj['run'] in self.todo:
                    self.todo.remove(obj['run'])
                if obj.get('poisoned'):
                    pass

    def check_timeout(self):
        limit = RUN_TIMEOUT + (30 if not self.results else 0)
        if not self.finished and time.monotonic() - self.last > limit:
            self._ended('timeout')

    def _ended(self, status):
        try:
            os.close(self.r)
        except OSError:
            pass
        if status in ('timeout', 'died', 'exception'):
            try:
                self.proc.kill()
            except Exception:
                pass
        try:
            self.proc.wait(timeout=10)
        except Exception:
            pass
        if status in ('timeout', 'died') and self.todo:
            self.results.append({'run': self.todo[0], 'harness': 'hang' if status == 'timeout' else 'worker-died'})
            self.todo = self.todo[1:]
        poisoned = bool(self.results and self.results[-1].get('poisoned'))
        if self.todo and time.time() < self.deadline and (status != 'ok' or poisoned):
            self._start()       # go on after the run that hung / died / poisoned the process
            return
        self.finished = True


# ----------------------------------------------------------------- driver side
class Driver:
    def __init__(self, prop_id, tier, seed, jobs=None):
        self.prop_id = prop_id
        self.tier = tier
        self.seed = seed
        self.jobs = jobs or int(os.environ.get('VERIF_JOBS', '0')) or (os.cpu_count() or 4)
        self.mod = _load_prop(prop_id)
        self.t0 = time.time()
        base = '/dev/shm' if os.path.isdir('/dev/shm') and os.access('/dev/shm', os.W_OK) else None
        self.scratch = tempfile.mkdtemp(prefix='verif-%s-' % prop_id, dir=base)

    def cleanup(self):
        shutil.rmtree(self.scratch, ignore_errors=True)

    # -- exploration ------------------------------------------------------
    def explore(self):
        mod = self.mod
        cfg = mod.tiers(self.tier)
        total = int(os.environ.get('VERIF_RUNS', '0')) or cfg['runs']
        wall = float(os.environ.get('VERIF_WALL', '0')) or cfg['wall']
        # Few, large chunks: every chunk is one forked batch child (or, for non-batch engines, a
        # stream of forked children) and process creation is what this sandbox is slow at.
        chunk = max(cfg.get('chunk', 20), -(-total // (self.jobs * cfg.get('chunks_per_job', 2))))
        deadline = int(time.time() + wall)
        need_scratch = getattr(mod, 'NEEDS_SCRATCH', False)
        self.chunk_cpu = {}
        runs = list(range(total))
        chunks = [runs[i:i + chunk] for i in range(0, len(runs), chunk)]
        # determinism spot-check: the first few runs are executed twice, in another process
        ndet = min(cfg.get('det_runs', 6), total)
        self.chunks = chunks
        pending = [('main%d' % i, c, deadline, self.scratch if need_scratch else None) for i, c in enumerate(chunks)]
        pending.insert(min(1, len(pending)), ('det', list(range(ndet)), deadline + 120,
                                              (self.scratch + '/det') if need_scratch else None))
        try:
            cpus = sorted(os.sched_getaffinity(0))
        except Exception:
            cpus = list(range(self.jobs))
        active = {}
        free_cpus = list(cpus[:self.jobs]) if len(cpus) >= self.jobs else [None] * self.jobs
        finished = []
        while pending or active:
            while pending and free_cpus:
                tag, c, dl, sc = pending.pop(0)
                cpu = free_cpus.pop(0)
                w = _Worker(self, c, dl, sc, cpu, tag)
                if c:
                    self.chunk_cpu[c[0]] = cpu
                active[w] = cpu
            rl, _, _ = select.select(list(active), [], [], 1.0)
            for w in rl:
                if not w.finished:
                    try:
                        w.on_readable()
                    except Exception:
                        w.results.append({'run': (w.todo or [-1])[0], 'harness': 'driver-read',
                                          'tb': traceback.format_exc()[-1500:]})
                        w._ended('died')
            for w in list(active):
                if not w.finished:
                    w.check_timeout()
                if w.finished:
                    free_cpus.append(active.pop(w))
                    finished.append(w)
        results = []
        det = []
        for w in finished:
            if w.tag == 'det':
                det = w.results
            else:
                results.extend(w.results)
        self.results = results
        self.det = det
        self.planned = total
        return results

    def check_determinism(self):
        by_run = {r['run']: r for r in self.results}
        bad = []
        n = 0
        # Event digests may depend on the allocation history of the worker process (e.g. beartype memo tables keyed by
        # objects that hash by address): both executions share that history only until one of them lost a run to a hang
        # or a replaced process. From there on only the verdicts are compared.
        same_history = True
        for d in sorted(self.det, key=lambda x: x['run']):
            o = by_run.get(d['run'])
            if o is None or o.get('harness') or d.get('harness'):
                same_history = False
                continue
            n += 1
            if (o.get('violation') or {}).get('kind') != (d.get('violation') or {}).get('kind'):
                bad.append((d['run'], o.get('digest'), d.get('digest')))
            elif same_history and o.get('digest') != d.get('digest'):
                if getattr(self.mod, 'DIGEST_LAYOUT_SENSITIVE', False):
                    # same verdict, different event sequence: tolerated for engines that declare their event digests
                    # sensitive to the addresses of objects (see DESIGN.md 11.3), counted in the evidence
                    self.layout_variants = getattr(self, 'layout_variants', 0) + 1
                else:
                    bad.append((d['run'], o.get('digest'), d.get('digest')))
            if o.get('poisoned') or d.get('poisoned'):
                same_history = False
        return n, bad

    # -- violations -------------------------------------------------------
    def confirm(self, case, kind, times=2):
        ok = 0
        for _ in range(times):
            out = run_one(self.mod, dict(case))
            v = out.get('violation')
            if v and v.get('kind') == kind:
                ok += 1
        return ok == times

    def run_prefix(self, runs, stop_at=None, cpu=None, timeout=600):
        """Re-execute a chunk exactly as ``explore`` did (same worker spec: same run list, same CPU, so the
        same allocation history), stopping once the outcome of run ``stop_at`` has arrived."""
        need = getattr(self.mod, 'NEEDS_SCRATCH', False)
        w = _Worker(self, runs, int(time.time() + timeout), (self.scratch + '/pfx') if need else None, cpu, 'prefix')
        t_end = time.time() + timeout
        while not w.finished and time.time() < t_end:
            rl, _, _ = select.select([w], [], [], 1.0)
            if rl:
                w.on_readable()
            w.check_timeout()
            if stop_at is not None and any(r.get('run') == stop_at for r in w.results):
                break
        if not w.finished:
            w.todo = []
            w._ended('timeout')
        return w.results

    def confirm_with_prefix(self, run, kind):
        """A violation that needs the process history of its batch (e.g. id() reuse): re-run its chunk in a
        fresh worker with the identical specification. Returns (chunk runs, cpu) or None."""
        chunk = None
        for i, c in enumerate(getattr(self, 'chunks', [])):
            if run in c:
                chunk = c
        if not chunk:
            return None
        cpu = getattr(self, 'chunk_cpu', {}).get(chunk[0])
        for _ in range(2):
            ok = False
            for r in self.run_prefix(chunk, stop_at=run, cpu=cpu):
                if r.get('run') == run:
                    v = r.get('violation')
                    ok = bool(v and v.get('kind') == kind)
            if not ok:
                return None
        return chunk, cpu

    def minimise(self, case, violation, budget=60.0):
        mod = self.mod
        shrink = getattr(mod, 'shrink', None)
        if shrink is None:
            return case, violation
        kind = violation['kind']
        t_end = time.time() + budget
        cur, curv = case, violation
        improved = True
        tried = 0
        while improved and time.time() < t_end:
            improved = False
            for cand in shrink(cur, curv):
                if time.time() > t_end:
                    break
                tried += 1
                cand = dict(cand)
                for k in ('run', 'seed'):
                    if k in cur:
                        cand.setdefault(k, cur[k])
                if 'scratch' in cur:
                    cand['scratch'] = cur['scratch'] + '-m%d' % tried
                out = run_one(mod, cand)
                if 'scratch' in cand:
                    shutil.rmtree(cand['scratch'], ignore_errors=True)
                v = out.get('violation')
                if v and v.get('kind') == kind:
                    cur, curv = cand, v
                    rec = out.get('record')
                    if rec:
                        cur = dict(cur)
                        cur.update(rec)
                    improved = True
                    break
        return cur, curv

    def write_replay(self, case, violation, tag):
        d = os.path.join(REPLAY_DIR, self.prop_id)
        os.makedirs(d, exist_ok=True)
        path = os.path.join(d, '%s-s%d-r%s.json' % (tag, self.seed, case.get('run', 'x')))
        rec = {'property': self.prop_id, 'seed': self.seed, 'case': _strip(case),
               'expect': {'kind': violation['kind'], 'detail': violation.get('detail', '')[:2000]}}
        with open(path, 'w') as f:
            json.dump(rec, f, indent=1, sort_keys=True, default=repr)
        return path

    # -- main -------------------------------------------------------------
    def main(self):
        mod = self.mod
        try:
            return self._main()
        finally:
            self.cleanup()

    def _main(self):
        mod = self.mod
        print('SEED %d property=%s tier=%s jobs=%d' % (self.seed, self.prop_id, self.tier, self.jobs), flush=True)
        results = self.explore()
        self.explore_wall = time.time() - self.t0
        print('explored %d runs in %.1fs' % (len(results), self.explore_wall), flush=True)
        n_det, bad_det = self.check_determinism()
        known = load_known(self.prop_id)
        harness = [r for r in results if r.get('harness')]
        done = [r for r in results if not r.get('harness')]
        viols = [r for r in done if r.get('violation')]
        known_hits = {}
        unknown = []
        for r in viols:
            k = match_known(mod, known, r.get('case') or {}, r['violation'])
            if k is not None:
                known_hits.setdefault(k['id'], []).append(r)
            else:
                unknown.append(r)
        # distinct unknown violations by key, minimise up to 3
        if os.environ.get('VERIF_DUMP'):
            with open(os.environ['VERIF_DUMP'], 'w') as f:
                json.dump([{'run': r['run'], 'digest': r.get('digest'), 'v': (r.get('violation') or {}).get('kind'),
                            'key': (r.get('violation') or {}).get('key'), 'detail': (r.get('violation') or {}).get('detail', '')[:600],
                            'h': r.get('harness')} for r in sorted(results, key=lambda x: x['run'])], f, indent=0)
        reported = []
        unrepro = 0
        groups = {}
        for r in unknown:
            v = r['violation']
            groups.setdefault((v['kind'], v.get('key', '')), []).append(r)
        min_budget = float(os.environ.get('VERIF_MIN_BUDGET', '60'))
        for (kind, key), rs in sorted(groups.items(), key=lambda kv: str(kv[0]))[:3]:
            r = min(rs, key=lambda x: x['run'])
            case = dict(r['case'])
            if r.get('record'):
                case.update(r['record'])
            if need_scratch(mod):
                case['scratch'] = os.path.join(self.scratch, 'min%d' % r['run'])
            # first: does it replay at all?
            if not self.confirm(case, kind, times=1):
                prefix = self.confirm_with_prefix(r['run'], kind) if getattr(mod, 'BATCH', False) else None
                if prefix is None:
                    unrepro += 1
                    print('UNREPRODUCIBLE property=%s kind=%s run=%d (not reported as a violation)' %
                          (self.prop_id, kind, r['run']), file=sys.stderr, flush=True)
                    continue
                # reproducible only together with the process history of its batch (allocation layout)
                pcase = dict(case)
                pcase['prefix_runs'] = prefix[0]
                pcase['prefix_cpu'] = prefix[1]
                pcase['stop_at'] = r['run']
                pcase['tier'] = self.tier
                v2 = dict(r['violation'])
                v2['layout_dependent'] = True
                k = match_known(mod, known, pcase, v2)
                if k is not None:
                    known_hits.setdefault(k['id'], []).append(r)
                    continue
                path = self.write_replay(pcase, v2, kind + '-withprefix')
                reported.append((kind, path, v2))
                continue
            mcase, mv = self.minimise(case, r['violation'], budget=min_budget)
            if not self.confirm(mcase, kind, times=2):
                mcase, mv = case, r['violation']
                if not self.confirm(mcase, kind, times=2):
                    unrepro += 1
                    continue
            k = match_known(mod, known, mcase, mv)
            if k is not None:
                known_hits.setdefault(k['id'], []).append(r)
                continue
            path = self.write_replay(mcase, mv, kind)
            self.write_replay(case, r['violation'], kind + '-unminimised')
            reported.append((kind, path, mv))
        wall = time.time() - self.t0
        ev = self.evidence(results, done, harness, viols, known_hits, reported, unrepro, n_det, bad_det, wall)
        ev['coverage']['starved_probes'] = [p for p in getattr(mod, 'PROBES', []) if ev['coverage'].get('probes', {}).get(p, 0) == 0]
        os.makedirs(EVIDENCE_DIR, exist_ok=True)
        with open(os.path.join(EVIDENCE_DIR, self.prop_id + '.json'), 'w') as f:
            json.dump(ev, f, indent=1, sort_keys=True, default=repr)
        for kid, rs in sorted(known_hits.items()):
            k = [x for x in known if x['id'] == kid][0]
            print('KNOWN-FINDING: property=%s %s [%s; hit in %d runs]' % (self.prop_id, k['what'], kid, len(rs)), flush=True)
        for kind, path, mv in reported:
            print('VIOLATION property=%s replay=%s' % (self.prop_id, path), flush=True)
            print('  kind=%s detail=%s' % (kind, (mv.get('detail') or '')[:400].replace('\n', ' | ')), flush=True)
        cov = ev['coverage']
        print('%s %s: runs=%d distinct_nontrivial=%d harness_errors=%d inconclusive=%d known_hits=%d violations=%d wall=%.1fs' % (
            self.prop_id, self.tier, cov['evaluations'], cov['distinct_nontrivial'], len(harness),
            cov.get('inconclusive_runs', 0), sum(len(v) for v in known_hits.values()), len(reported), wall), flush=True)
        if reported:
            return 1
        # harness-level failures
        if bad_det:
            print('HARNESS-NONDETERMINISM property=%s runs=%s' % (self.prop_id, bad_det[:5]), flush=True)
            return 2
        if len(done) == 0 or len(harness) > max(3, len(results) // 20):
            print('HARNESS-ERROR property=%s: %d of %d runs failed in the harness' % (self.prop_id, len(harness), len(results)), flush=True)
            for h in harness[:3]:
                print('  ', {k: v for k, v in h.items() if k != 'case'}, flush=True)
            return 2
        starved = [p for p in getattr(mod, 'PROBES', []) if cov['probes'].get(p, 0) == 0]
        if starved and self.tier == 'quick' and not os.environ.get('VERIF_RUNS'):
            print('HARNESS-WEAK property=%s: probes never fired: %s' % (self.prop_id, starved), flush=True)
            # a generator problem when the planned runs were (mostly) explored; on an overloaded machine that explored only a
            # fraction of them within the wall budget it is reported (here and in the evidence) but does not fail the check
            if len(results) * 2 >= cov.get('planned_runs', 0):
                return 2
        return 0

    def evidence(self, results, done, harness, viols, known_hits, reported, unrepro, n_det, bad_det, wall):
        mod = self.mod
        digests = set()
        nontrivial = set()
        stats = {}
        probes = {}
        incon = 0
        steps = 0
        simtime = 0.0
        for r in done:
            if r.get('inconclusive'):
                incon += 1
            d = r.get('digest')
            digests.add(d)
            if r.get('nontrivial'):
                nontrivial.add(d)
            for k, v in (r.get('stats') or {}).items():
                stats[k] = stats.get(k, 0) + v
            for k, v in (r.get('probes') or {}).items():
                probes[k] = probes.get(k, 0) + v
            steps += r.get('steps', 0)
            simtime += r.get('sim_time', 0.0)
        samples = []
        for r in results:
            if 'case' in r and not r.get('harness') and len(samples) < 4:
                samples.append(mod.describe(r['case']) if hasattr(mod, 'describe') else _strip(r['case']))
        if not samples:
            samples = ['(no sample captured)']
        pairs = set()
        for r in done:
            for p in r.get('pairs') or ():
                pairs.add(tuple(p))
        cov = {
            'evaluations': len(done),
            'distinct_nontrivial': len(nontrivial),
            'rule': getattr(mod, 'RULE', ''),
            'samples': samples,
            'planned_runs': self.planned,
            'seeds': {'master': self.seed, 'per_run': 'sha256(master/property/stream/run)'},
            'runs_per_hour': int(len(done) / max(getattr(self, 'explore_wall', wall), 1e-6) * 3600),
            'explore_wall_s': round(getattr(self, 'explore_wall', wall), 2),
            'steps': steps,
            'simulated_time_s': simtime if simtime else None,
            'faults_fired': stats,
            'probes': probes,
            'distinct_digests': len(digests),
            'distinct_interleavings': {'measure': getattr(mod, 'INTERLEAVING_MEASURE', 'distinct run digests'),
                                       'count': len(digests), 'switch_pairs': len(pairs)},
            'inconclusive_runs': incon,
            'harness_errors': len(harness),
            'harness_error_kinds': _count(h.get('harness') for h in harness),
            'determinism_recheck': {'runs_compared': n_det, 'mismatches': len(bad_det),
                                    'aslr_off': os.environ.get('VERIF_NOASLR') == '1',
                                    'same_verdict_different_digest': getattr(self, 'layout_variants', 0)},
            'unreproducible_violations': unrepro,
            'components': getattr(mod, 'COMPONENTS', {}),
            'known_findings_hit': {k: len(v) for k, v in known_hits.items()},
            'jobs': self.jobs,
            'exhaustive': False,
        }
        return {
            'property_id': self.prop_id,
            'tier': self.tier,
            'seed': self.seed,
            'level': 'exploration',
            'coverage': cov,
            'assumptions': getattr(mod, 'ASSUMPTIONS', []),
            'wall_s': round(wall, 2),
            'violations': len(reported),
        }


def need_scratch(mod):
    return getattr(mod, 'NEEDS_SCRATCH', False)


def _count(it):
    d = {}
    for x in it:
        d[str(x)] = d.get(str(x), 0) + 1
    return d


def _strip(case):
    return {k: v for k, v in case.items() if k not in ('scratch',)}


# ----------------------------------------------------------------- replay
def replay(prop_id, path):
    mod = _load_prop(prop_id)
    with open(path) as f:
        rec = json.load(f)
    case = rec['case']
    if case.get('prefix_runs'):
        d = Driver(prop_id, case.get('tier', 'quick'), rec.get('seed', 0))
        try:
            res = d.run_prefix(case['prefix_runs'], stop_at=case.get('stop_at'), cpu=case.get('prefix_cpu'))
        finally:
            d.cleanup()
        exp = rec.get('expect', {})
        for r in res:
            if r.get('run') == case.get('stop_at', case['prefix_runs'][-1]) and r.get('violation') and r['violation'].get('kind') == exp.get('kind'):
                print('VIOLATION property=%s replay=%s' % (prop_id, path))
                print('  kind=%s detail=%s' % (r['violation']['kind'], (r['violation'].get('detail') or '')[:1000]))
                return 1
        print('replay (with batch prefix of %d runs) did not reproduce the violation' % len(case['prefix_runs']))
        return 0
    scratch = None
    if need_scratch(mod):
        base = '/dev/shm' if os.path.isdir('/dev/shm') else None
        scratch = tempfile.mkdtemp(prefix='verif-replay-', dir=base)
        case['scratch'] = os.path.join(scratch, 'r')
    try:
        out = run_one(mod, case)
    finally:
        if scratch:
            shutil.rmtree(scratch, ignore_errors=True)
    v = out.get('violation')
    exp = rec.get('expect', {})
    if v and v.get('kind') == exp.get('kind'):
        print('VIOLATION property=%s replay=%s' % (prop_id, path))
        print('  kind=%s detail=%s' % (v['kind'], (v.get('detail') or '')[:1000]))
        return 1
    if v:
        print('replay produced a different violation kind: %s (expected %s)' % (v.get('kind'), exp.get('kind')))
        print('VIOLATION property=%s replay=%s' % (prop_id, path))
        return 1
    if out.get('harness'):
        print('replay failed in the harness:', {k: v for k, v in out.items() if k != 'case'})
        return 2
    print('replay did not reproduce the violation (property held on this tree)')
    return 0


# ----------------------------------------------------------------- shrink helpers
def drop_chunks(lst, min_len=0):
    """ddmin-style candidates: the list with chunks removed, big chunks first."""
    n = len(lst)
    size = n // 2
    seen = set()
    while size >= 1:
        for i in range(0, n, size):
            cand = lst[:i] + lst[i + size:]
            if len(cand) >= min_len and len(cand) < n:
                key = (i, size)
                if key not in seen:
                    seen.add(key)
                    yield cand
        size //= 2
