"""Evaluate one (hint, object, configuration, draw) at all six public entry points.

The sampler seam (sim/boot.py) is set to hand out exactly ``draw`` for every
``getrandbits`` request made during the evaluation; the number of draws actually
consumed is recorded. Each entry point gets a freshly built object (so that
one-shot iterators are not shared).
"""
import warnings

from . import boot, ops
from . import hints as H

ENTRY_POINTS = ('is_bearable', 'die_if_unbearable', 'typehint_is_bearable', 'typehint_die', 'param', 'return')


class NeverK:
    """Annotates the variadic keyword parameter of the signature shapes below: no generated object is an instance, so
    that a wrapper which wrongly applies ``**kw: NeverK`` to a declared parameter rejects it."""


# Signature shapes / calling conventions of the decorated callable whose parameter ``a`` carries the hint. Every shape
# hands the object to the callable as the parameter ``a`` and returns it; what varies is what the wrapper has to work
# out to find it (positional or keyword, keyword-only, after another parameter, next to ``**kw``, bound method, ...).
SIGS = ('pos', 'kw', 'pos_kwargs', 'kw_kwargs', 'extra_kw', 'kwonly', 'kwonly_kwargs', 'second', 'second_kw', 'posonly',
        'method', 'varpos', 'varkw', 'unannotated_first')
SIGS += ('async', 'cls_method', 'cls_classmethod', 'cls_staticmethod', 'dataclass_init')
SIG_WEIGHTS = (40, 6, 4, 8, 4, 5, 6, 4, 5, 3, 4, 4, 4, 3, 3, 3, 3, 3, 4)
# ... and of the callable whose *return* carries the hint: plain function, coroutine function (the check runs when the
# coroutine finishes), or a method / classmethod / staticmethod / property of a class decorated as a whole
RSIGS = ('plain', 'async', 'cls_method', 'cls_classmethod', 'cls_staticmethod', 'cls_property', 'method')
RSIG_WEIGHTS = (60, 8, 7, 6, 6, 7, 6)


def gen_sig(rng):
    return rng.choices(SIGS, SIG_WEIGHTS)[0] + '/' + rng.choices(RSIGS, RSIG_WEIGHTS)[0]


def _drive(coro):
    """Run a coroutine that never suspends to completion."""
    try:
        coro.send(None)
    except StopIteration as e:
        return e.value
    coro.close()
    raise RuntimeError('coroutine suspended')


def _mk_return(rsig, hint, ran, deco):
    def note():
        ran['return'] += 1
    if rsig == 'async':
        async def f(a):
            note()
            return a
        f.__annotations__ = {'return': hint}
        g = deco(f)
        return lambda x: _drive(g(x))
    if rsig == 'method':
        class C:
            def m(self, a):
                note()
                return a
        C.m.__annotations__ = {'return': hint}
        C.m = deco(C.m)
        c = C()
        return lambda x: c.m(x)

    class K:
        def m(self, a):
            note()
            return a

        @classmethod
        def cm(cls, a):
            note()
            return a

        @staticmethod
        def sm(a):
            note()
            return a

        @property
        def pr(self):
            note()
            return self.value
    which = {'cls_method': K.m, 'cls_classmethod': K.__dict__['cm'].__func__, 'cls_staticmethod': K.__dict__['sm'].__func__,
             'cls_property': K.__dict__['pr'].fget}[rsig]
    which.__annotations__ = {'return': hint}
    K = deco(K)
    k = K()
    if rsig == 'cls_method':
        return lambda x: k.m(x)
    if rsig == 'cls_classmethod':
        return lambda x: K.cm(x)
    if rsig == 'cls_staticmethod':
        return lambda x: K.sm(x)

    def call(x):
        k.value = x
        return k.pr
    return call


def _mk_param(sig, hint, ran, deco):
    """The decorated callable of shape ``sig`` as a one-argument callable ``x -> a``."""
    def note():
        ran['param'] += 1
    if sig == 'kw':
        def f(a):
            note()
            return a
        f.__annotations__ = {'a': hint}
        g = deco(f)
        return lambda x: g(a=x)
    if sig in ('pos_kwargs', 'kw_kwargs', 'extra_kw'):
        def f(a, **kw):
            note()
            return a
        f.__annotations__ = {'a': hint, 'kw': NeverK}
        g = deco(f)
        if sig == 'pos_kwargs':
            return lambda x: g(x)
        if sig == 'kw_kwargs':
            return lambda x: g(a=x)
        return lambda x: g(x, z=NeverK(), y=NeverK())
    if sig == 'kwonly':
        def f(*, a):
            note()
            return a
        f.__annotations__ = {'a': hint}
        g = deco(f)
        return lambda x: g(a=x)
    if sig == 'kwonly_kwargs':
        def f(n=0, *, a, **kw):
            note()
            return a
        f.__annotations__ = {'n': int, 'a': hint, 'kw': NeverK}
        g = deco(f)
        return lambda x: g(1, a=x)
    if sig in ('second', 'second_kw'):
        def f(n, a=None, *rest, k=0):
            note()
            return a
        f.__annotations__ = {'n': int, 'a': hint, 'rest': NeverK, 'k': int}
        g = deco(f)
        if sig == 'second':
            return lambda x: g(0, x)
        return lambda x: g(0, a=x, k=2)
    if sig == 'posonly':
        ns = {}
        exec('def f(a, /, b=0):\n    note()\n    return a\n', {'note': note}, ns)
        f = ns['f']
        f.__annotations__ = {'a': hint, 'b': int}
        g = deco(f)
        return lambda x: g(x)
    if sig == 'method':
        class C:
            def m(self, a):
                note()
                return a
        C.m.__annotations__ = {'a': hint}
        C.m = deco(C.m)
        c = C()
        return lambda x: c.m(x)
    if sig == 'varpos':
        def f(*a):
            note()
            return a[-1]
        f.__annotations__ = {'a': hint}
        g = deco(f)
        return lambda x: g(x)
    if sig == 'varkw':
        def f(**a):
            note()
            return a['k']
        f.__annotations__ = {'a': hint}
        g = deco(f)
        return lambda x: g(k=x)
    if sig == 'async':
        async def f(a):
            note()
            return a
        f.__annotations__ = {'a': hint}
        g = deco(f)
        return lambda x: _drive(g(x))
    if sig in ('cls_method', 'cls_classmethod', 'cls_staticmethod'):
        class K:
            def m(self, a):
                note()
                return a

            @classmethod
            def cm(cls, a, *more):
                note()
                return a

            @staticmethod
            def sm(a, b=None):
                note()
                return a
        which = {'cls_method': K.m, 'cls_classmethod': K.__dict__['cm'].__func__, 'cls_staticmethod': K.__dict__['sm'].__func__}[sig]
        which.__annotations__ = {'a': hint}
        K = deco(K)
        k = K()
        return {'cls_method': lambda x: k.m(x), 'cls_classmethod': lambda x: k.cm(x), 'cls_staticmethod': lambda x: K.sm(a=x)}[sig]
    if sig == 'dataclass_init':
        # the generated __init__ of a dataclass decorated as a whole; __post_init__ stands for "the callable ran"
        import dataclasses
        D = dataclasses.make_dataclass('D', [('a', hint)], namespace={'__post_init__': lambda self: note()})
        D = deco(D)
        return lambda x: D(x).a
    if sig == 'unannotated_first':
        def f(u, a, **kw):
            note()
            return a
        f.__annotations__ = {'a': hint, 'kw': NeverK}
        g = deco(f)
        return lambda x: g(u=x, a=x)
    raise ValueError(sig)


class Prepared:
    """Checkers for one (hint, conf): built once, evaluated for many objects / draws."""

    def __init__(self, hint, conf_kw, prebuilt_conf=None, sig='pos'):
        from beartype import beartype, door
        self.hint = hint
        # 'psig' or 'psig/rsig': the shape of the callable whose parameter carries the hint / whose return does
        psig, _, rsig = (sig or 'pos').partition('/')
        self.sig = psig if psig in SIGS else 'pos'
        self.rsig = rsig if rsig in RSIGS else 'plain'
        self.conf_kw = conf_kw
        self.conf = prebuilt_conf if prebuilt_conf is not None else ops.build_conf(conf_kw)
        self.door = door
        self.decor_errors = {}
        self.th = None
        self.f_param = self.f_return = None
        self.ran = {'param': 0, 'return': 0}
        try:
            self.th = door.TypeHint(hint)
        except Exception as e:      # noqa
            self.decor_errors['typehint'] = e

        def mk(pos):
            ran = self.ran
            if pos == 'param' and self.sig != 'pos':
                return _mk_param(self.sig, hint, ran, beartype(conf=self.conf))
            if pos == 'return' and self.rsig != 'plain':
                return _mk_return(self.rsig, hint, ran, beartype(conf=self.conf))

            def f(a):
                ran[pos] += 1
                return a
            f.__annotations__ = {'a': hint} if pos == 'param' else {'return': hint}
            return beartype(conf=self.conf)(f)
        for pos in ('param', 'return'):
            try:
                with warnings.catch_warnings():
                    warnings.simplefilter('ignore')
                    setattr(self, 'f_' + pos, mk(pos))
            except Exception as e:      # noqa
                self.decor_errors[pos] = e

    def entry_points(self):
        """The entry points that apply to this hint: all six, minus the two TypeHint routes for hints that the door API
        documents as unsupported (``BeartypeDoorNonpepException: ... currently unsupported by "beartype.door.TypeHint"``,
        a public exception raised when the wrapper is constructed; e.g. PEP 646 unpacked tuples, subscripted PEP 695 aliases)."""
        e = self.decor_errors.get('typehint')
        if e is not None and type(e).__name__ == 'BeartypeDoorNonpepException' and 'currently unsupported by' in str(e):
            return tuple(ep for ep in ENTRY_POINTS if not ep.startswith('typehint_'))
        return ENTRY_POINTS

    def eval(self, entry, x, draw):
        """Returns dict(verdict, exc, msg, culprits, warns, draws, ran)."""
        s = boot.SAMPLER
        s.sticky = draw
        s.consumed = 0
        door = self.door
        ran0 = dict(self.ran)
        out = {'verdict': None, 'exc': None, 'exc_obj': None, 'warns': [], 'value_same': None}
        try:
            with warnings.catch_warnings(record=True) as w:
                warnings.simplefilter('always')
                try:
                    if entry == 'is_bearable':
                        r = door.is_bearable(x, self.hint, conf=self.conf)
                        out['verdict'] = 'accept' if r is True else ('reject' if r is False else 'nonbool:%r' % (r,))
                    elif entry == 'die_if_unbearable':
                        door.die_if_unbearable(x, self.hint, conf=self.conf)
                        out['verdict'] = 'accept'
                    elif entry == 'typehint_is_bearable':
                        if self.th is None:
                            raise self.decor_errors['typehint']
                        r = self.th.is_bearable(x, conf=self.conf)
                        out['verdict'] = 'accept' if r is True else ('reject' if r is False else 'nonbool:%r' % (r,))
                    elif entry == 'typehint_die':
                        if self.th is None:
                            raise self.decor_errors['typehint']
                        self.th.die_if_unbearable(x, conf=self.conf)
                        out['verdict'] = 'accept'
                    elif entry in ('param', 'return'):
                        f = getattr(self, 'f_' + entry)
                        if f is None:
                            raise self.decor_errors[entry]
                        r = f(x)
                        out['value_same'] = r is x
                        out['verdict'] = 'accept'
                except Exception as e:      # noqa
                    out['exc'] = type(e)
                    out['exc_obj'] = e
                    out['verdict'] = 'raise'
            out['warns'] = [(x_.category, str(x_.message)) for x_ in w
                            if not issubclass(x_.category, DeprecationWarning)
                            and not x_.category.__module__.startswith('beartype.roar')]
        finally:
            out['draws'] = s.consumed
            s.sticky = None
        out['ran'] = self.ran.get(entry, 0) - ran0.get(entry, 0) if entry in self.ran else None
        return out


def classify(out, conf):
    """'accept' | 'reject' | 'error' from an eval outcome, taking warning-mode configurations into account."""
    import beartype.roar as roar
    if out['verdict'] == 'raise':
        e = out['exc_obj']
        if isinstance(e, roar.BeartypeCallHintViolation):
            return 'reject'
        # configured non-beartype violation classes
        vts = {conf.violation_door_type, conf.violation_param_type, conf.violation_return_type}
        if type(e) in vts:
            return 'reject'
        return 'error'
    if out['verdict'] == 'reject':
        return 'reject'
    if out['warns']:
        vts = {conf.violation_door_type, conf.violation_param_type, conf.violation_return_type}
        if any(c in vts for c, _ in out['warns']):
            return 'reject'
    if out['verdict'] == 'accept':
        return 'accept'
    return 'error'


CONF_SWARM = [
    None, None, None,
    {'is_color': False}, {'strategy': 'O1'}, {'strategy': 'On'}, {'is_random': False},
    {'vt': 'exc'}, {'vt': 'warn'}, {'vdoor': 'warn'}, {'vparam': 'valueerror'}, {'vreturn': 'warn'},
    {'verbosity': 'MINIMAL'}, {'verbosity': 'MAXIMAL'}, {'is_color': False, 'vt': 'warn'},
    {'is_random': False, 'vt': 'exc'}, {'strategy': 'On', 'vt': 'warn'}, {'is_color': True}, {'is_color': True, 'vt': 'warn'},
]


def gen_conf(rng, allow_tower=True):
    c = rng.choice(CONF_SWARM)
    c = dict(c) if c else {}
    if allow_tower and rng.random() < 0.12:
        c['tower'] = True
    c.setdefault('is_color', False)
    return c
