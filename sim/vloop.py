"""Virtual-time asyncio event loop: the clock jumps to the next timer, nothing blocks.

``VLoop`` is ``asyncio.BaseEventLoop`` with a fake selector whose ``select(timeout)``
advances the simulated clock by ``timeout`` instead of waiting. The ready queue
stays FIFO (asyncio's own guarantee); which task starts first and when simulated
I/O completes is decided by the caller's seeded PRNG.
"""
import asyncio


class Stalled(Exception):
    """Nothing is ready and no timer is pending although the main future is not done."""


class _FakeSelector:
    def __init__(self, loop):
        self.loop = loop

    def select(self, timeout=None):
        if timeout is None:
            raise Stalled('event loop stalled: no ready callback and no timer')
        if timeout > 0:
            self.loop._now += timeout
        self.loop.iterations += 1
        if self.loop.iterations > self.loop.max_iterations:
            raise Stalled('event loop exceeded %d iterations' % self.loop.max_iterations)
        return []

    def close(self):
        pass


class VLoop(asyncio.BaseEventLoop):
    def __init__(self, max_iterations=20000):
        super().__init__()
        self._now = 0.0
        self.iterations = 0
        self.max_iterations = max_iterations
        self._selector = _FakeSelector(self)
        self._clock_resolution = 1e-9
        self.ignored_close = 0      # async generators that answered a finalisation close request by yielding again

    # Same as BaseEventLoop._asyncgen_finalizer_hook, except that the outcome of the aclose() task is looked at: asyncio
    # itself only reports 'async generator ignored GeneratorExit' through a "Task exception was never retrieved" message
    # whenever the task object happens to be collected.
    def _asyncgen_finalizer_hook(self, agen):
        self._asyncgens.discard(agen)
        if not self.is_closed():
            self.call_soon_threadsafe(self._create_close_task, agen)

    def _create_close_task(self, agen):
        t = self.create_task(agen.aclose())
        t.add_done_callback(self._note_close_result)

    def _note_close_result(self, t):
        if not t.cancelled():
            e = t.exception()
            if e is not None and 'ignored GeneratorExit' in str(e):
                self.ignored_close += 1

    def time(self):
        return self._now

    def _process_events(self, event_list):
        pass

    def _write_to_self(self):
        pass


def run(coro_factory, max_iterations=20000):
    """Run ``coro_factory(loop)`` to completion on a fresh virtual loop; returns (result, loop)."""
    loop = VLoop(max_iterations)
    asyncio.set_event_loop(None)
    try:
        main = coro_factory(loop)
        result = loop.run_until_complete(main)
        # Tear down the way asyncio.run() does: cancel what is left, then close async generators.
        try:
            pending = [t for t in asyncio.all_tasks(loop) if not t.done()]
            for t in pending:
                t.cancel()
            if pending:
                loop.run_until_complete(asyncio.gather(*pending, return_exceptions=True))
            loop.run_until_complete(loop.shutdown_asyncgens())
        except Stalled:
            pass
        return result, loop
    finally:
        try:
            loop.close()
        except Exception:
            pass
