"""Self-tests of the machinery: determinism and sensitivity.

    check.py selftest determinism [IDs...]   every engine: the same runs executed in three fresh worker
                                             interpreters (two CPUs, and once under another PYTHONHASHSEED
                                             for the *driver-side generator*), digests and verdicts diffed
    check.py selftest sensitivity [names...] in-memory mutants of beartype (no file under /repo is touched):
                                             the matching check must report a violation within its quick budget

Exit 0 when everything behaves, 1 otherwise.
"""
import json
import os
import select
import sys
import time

from . import kernel

ALL = ['C01', 'C02', 'C03', 'C06', 'C07', 'C08', 'C09', 'C10', 'C11', 'C14', 'C15', 'C16', 'C17', 'C18']


def _collect(driver, runs, cpu, env=None):
    old = {}
    if env:
        for k, v in env.items():
            old[k] = os.environ.get(k)
            os.environ[k] = v
    try:
        need = getattr(driver.mod, 'NEEDS_SCRATCH', False)
        w = kernel._Worker(driver, runs, int(time.time() + 600), (driver.scratch + '/st%s' % cpu) if need else None, cpu, 'selftest')
    finally:
        for k, v in old.items():
            if v is None:
                os.environ.pop(k, None)
            else:
                os.environ[k] = v
    t_end = time.time() + 600
    while not w.finished and time.time() < t_end:
        rl, _, _ = select.select([w], [], [], 1.0)
        if rl:
            w.on_readable()
        w.check_timeout()
    return {r['run']: (r.get('digest'), (r.get('violation') or {}).get('kind'), r.get('harness')) for r in w.results}


def determinism(ids, nruns=60):
    bad = 0
    for pid in ids:
        d = kernel.Driver(pid, 'quick', 12345)
        try:
            runs = list(range(nruns))
            a = _collect(d, runs, 0)
            b = _collect(d, runs, 1)
            c = _collect(d, runs, 2, env={'PYTHONHASHSEED': '77', 'VERIF_REEXEC': '1', 'VERIF_KEEP_HASHSEED': '1'})
        finally:
            d.cleanup()
        diff_ab = [r for r in runs if a.get(r) != b.get(r)]
        if getattr(d.mod, 'DIGEST_LAYOUT_SENSITIVE', False):
            # engines whose event digests depend on object addresses: same-seed executions must agree on the verdicts
            layout = [r for r in diff_ab if (a.get(r) or (None, None, None))[1:] == (b.get(r) or (None, None, None))[1:]]
            diff_ab = [r for r in diff_ab if r not in layout]
            if layout:
                print('   (%s: %d same-seed runs with equal verdicts but different event digests: %r)' % (pid, len(layout), layout[:5]))
        # under another hash seed the *event digests* may legitimately differ where beartype iterates sets of strings;
        # verdicts must not
        diff_ac = [r for r in runs if (a.get(r) or (None, None, None))[1:] != (c.get(r) or (None, None, None))[1:]]
        dig_ac = [r for r in runs if a.get(r) != c.get(r)]
        ok = not diff_ab and not diff_ac
        print('%s determinism: %d runs x 3 processes; same-seed mismatches=%d; verdict mismatches under PYTHONHASHSEED=77: %d '
              '(digest differences there: %d) -> %s' % (pid, nruns, len(diff_ab), len(diff_ac), len(dig_ac), 'ok' if ok else 'FAIL'), flush=True)
        if not ok:
            bad += 1
            for r in (diff_ab + diff_ac)[:3]:
                print('   run', r, a.get(r), b.get(r), c.get(r))
    return bad


# ------------------------------------------------------------------ in-memory mutants
class _NoLock:
    def __enter__(self):
        return self

    def __exit__(self, *a):
        return False

    def acquire(self, *a, **k):
        return True

    def release(self):
        pass


def m_conf_lock():
    import beartype._conf.confmain as m
    m._beartype_conf_lock = _NoLock()


def m_typehint_lock():
    import beartype.door._cls.doormeta as m
    m._HINT_TO_WRAPPER._lock = _NoLock()


def m_keypool_lock():
    import gc
    from beartype._util.cache.pool.utilcachepool import KeyPool
    for o in gc.get_objects():
        if isinstance(o, KeyPool):
            o._thread_lock = _NoLock()


def m_claw_lock():
    import sys as _sys
    import beartype.claw._clawstate as m
    old = m.claw_lock
    new = _NoLock()
    for mod in list(_sys.modules.values()):
        d = getattr(mod, '__dict__', None)
        if d and d.get('claw_lock') is old:
            d['claw_lock'] = new


def m_pathhook_not_removed():
    import beartype.claw._package.clawpkgcontext as m
    m.remove_beartype_pathhook_unless_packages_trie = lambda: None


def m_coerce_by_repr():
    import beartype._check.convert._convcoerce as m
    from beartype._util.hint.utilhintget import get_hint_repr

    def coerce_hint_any(hint):
        if m.is_hint_cacheworthy(hint):
            hint = m._hint_repr_to_hint.cache_or_get_cached_value(key=get_hint_repr(hint), value=hint)
        return hint
    import sys as _sys
    old = m.coerce_hint_any
    for mod in list(_sys.modules.values()):
        d = getattr(mod, '__dict__', None)
        if d and d.get('coerce_hint_any') is old:
            d['coerce_hint_any'] = coerce_hint_any


def m_marker_dropped():
    import importlib._bootstrap_external as ibe  # noqa
    import beartype.claw._importlib._clawimpfileloader as m
    from importlib.util import cache_from_source
    m.cache_from_source_beartype = lambda *a, **k: cache_from_source(*a, **k)


def m_error_path_scans_all():
    import beartype._check.cls.logic.logcls as m

    def enumerate_cause_items(self, cause):
        return enumerate(cause.pith)
    m.HintSignLogicContainerArgs1.enumerate_cause_items = enumerate_cause_items


def m_bool_options_unvalidated():
    import beartype._conf.conftest as m
    m._ARG_NAMES_BOOL = ()


MUTANTS = {
    'conf_lock_noop': ('C15', m_conf_lock, 'BeartypeConf memo lock removed'),
    'typehint_lock_noop': ('C15', m_typehint_lock, 'TypeHint cache lock removed'),
    'keypool_lock_noop': ('C15', m_keypool_lock, 'KeyPool lock removed'),
    'claw_lock_noop': ('C15', m_claw_lock, 'claw registry lock removed'),
    'beartyping_keeps_path_hook': ('C06', m_pathhook_not_removed, 'beartyping() exit no longer removes the path hook'),
    'coerce_by_repr_only': ('C14', m_coerce_by_repr, 'hint coercion keyed by repr() only (the repaired defect re-introduced)'),
    'cache_marker_dropped': ('C16', m_marker_dropped, 'hooked bytecode cached without beartype\'s marker'),
    'error_path_scans_all_items': ('C09', m_error_path_scans_all, 'explanation path enumerates the whole container under O1'),
    'bool_options_unvalidated': ('C17', m_bool_options_unvalidated, 'boolean options no longer validated'),
}


def apply_mutant_from_env():
    name = os.environ.get('VERIF_MUTANT')
    if name:
        MUTANTS[name][1]()


def sensitivity(names):
    import subprocess
    bad = 0
    for name in names:
        pid, _, what = MUTANTS[name]
        env = dict(os.environ, VERIF_MUTANT=name, VERIF_SEED='7', VERIF_MIN_BUDGET='5',
                   VERIF_EVIDENCE_DIR=os.path.join(kernel.VERIF, 'replays', '_selftest_evidence'))
        t0 = time.time()
        p = subprocess.run([sys.executable, '-B', os.path.join(kernel.VERIF, 'check.py'), pid, '--tier', 'quick'],
                           env=env, capture_output=True, text=True, timeout=900)
        fired = any(l.startswith('VIOLATION property=%s ' % pid) for l in p.stdout.splitlines())
        print('%s sensitivity: mutant %-28s (%s): %s in %.0fs (exit %d)' % (pid, name, what, 'DETECTED' if fired else 'MISSED',
                                                                              time.time() - t0, p.returncode), flush=True)
        if not fired:
            bad += 1
            print('\n'.join(p.stdout.splitlines()[-4:]))
    return bad


def main(argv):
    what = argv[0] if argv else 'determinism'
    rest = argv[1:]
    if what == 'determinism':
        return 1 if determinism([x.upper() for x in rest] or ALL) else 0
    if what == 'sensitivity':
        return 1 if sensitivity(rest or list(MUTANTS)) else 0
    if what == 'all':
        a = determinism(ALL)
        b = sensitivity(list(MUTANTS))
        return 1 if (a or b) else 0
    print(__doc__)
    return 2
