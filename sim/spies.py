"""Instrumented containers and streams: the checked object as the library's I/O surface.

Every spy counts the protocol methods invoked on it (and on the iterators it
hands out) in ``spy.log`` (a Counter). Mutating methods are counted under
``'MUTATE:<name>'``. Builtin-derived spies (list, tuple, set, frozenset, deque,
dict, defaultdict, OrderedDict, Counter) exercise the code paths beartype uses
for real containers; the pure-Python ones implement only the collections.abc
protocol named in their class.
"""
import collections
import collections.abc as cabc


class SpyIter:
    """Iterator handed out by a spy: counts ``__next__`` on the owner's log."""

    def __init__(self, it, log, tag='__next__'):
        self._it = it
        self._log = log
        self._tag = tag

    def __iter__(self):
        return self

    def __next__(self):
        self._log[self._tag] += 1
        return next(self._it)


def _count(name):
    def deco(fn):
        def wrapper(self, *a, **k):
            self.log[name] += 1
            return fn(self, *a, **k)
        wrapper.__name__ = fn.__name__
        return wrapper
    return deco


def _mk_builtin_spy(base, name, mutators=(), mapping=False):
    ns = {}

    def __init__(self, *a, **k):
        base.__init__(self, *a, **k)
    if base in (tuple, frozenset):
        def __new__(cls, *a, **k):
            self = base.__new__(cls, *a, **k)
            return self
        ns['__new__'] = __new__
        ns['__init__'] = lambda self, *a, **k: None

    def log(self):
        d = self.__dict__.get('_log')
        if d is None:
            d = self.__dict__['_log'] = collections.Counter()
        return d
    ns['log'] = property(log)

    def __len__(self):
        self.log['__len__'] += 1
        return base.__len__(self)

    def __iter__(self):
        self.log['__iter__'] += 1
        return SpyIter(base.__iter__(self), self.log)

    def __contains__(self, x):
        self.log['__contains__'] += 1
        return base.__contains__(self, x)

    def __repr__(self):
        self.log['__repr__'] += 1
        return '%s(<%d items>)' % (name, base.__len__(self))

    def __eq__(self, o):
        self.log['__eq__'] += 1
        return base.__eq__(self, o)

    def __bool__(self):
        self.log['__bool__'] += 1
        return base.__len__(self) > 0
    ns.update(__len__=__len__, __iter__=__iter__, __contains__=__contains__, __repr__=__repr__, __eq__=__eq__,
              __bool__=__bool__)
    if base not in (set, frozenset):
        def __getitem__(self, i):
            self.log['__getitem__'] += 1
            return base.__getitem__(self, i)
        ns['__getitem__'] = __getitem__
    if hasattr(base, '__reversed__'):
        def __reversed__(self):
            self.log['__reversed__'] += 1
            return SpyIter(base.__reversed__(self), self.log)
        ns['__reversed__'] = __reversed__
    if base.__hash__ is not None:
        ns['__hash__'] = base.__hash__
    else:
        ns['__hash__'] = None
    if mapping:
        def keys(self):
            self.log['keys'] += 1
            return SpyView(base.keys(self), self.log, 'keys')

        def values(self):
            self.log['values'] += 1
            return SpyView(base.values(self), self.log, 'values')

        def items(self):
            self.log['items'] += 1
            return SpyView(base.items(self), self.log, 'items')

        def get(self, k, d=None):
            self.log['get'] += 1
            return base.get(self, k, d)
        ns.update(keys=keys, values=values, items=items, get=get)
    for m in mutators:
        if hasattr(base, m):
            def mk(m):
                def f(self, *a, **k):
                    self.log['MUTATE:' + m] += 1
                    return getattr(base, m)(self, *a, **k)
                return f
            ns[m] = mk(m)
    return type(name, (base,), ns)


class SpyView:
    """View object handed out by a mapping spy."""

    def __init__(self, view, log, kind):
        self._v = view
        self._log = log
        self._kind = kind

    def __len__(self):
        self._log[self._kind + '.__len__'] += 1
        return len(self._v)

    def __iter__(self):
        self._log[self._kind + '.__iter__'] += 1
        return SpyIter(iter(self._v), self._log, self._kind + '.__next__')

    def __contains__(self, x):
        self._log[self._kind + '.__contains__'] += 1
        return x in self._v


LIST_MUT = ('append', 'extend', 'insert', 'pop', 'remove', 'clear', 'sort', 'reverse', '__setitem__', '__delitem__', '__iadd__', '__imul__')
SET_MUT = ('add', 'discard', 'remove', 'pop', 'clear', 'update', '__ior__', '__iand__', '__isub__', '__ixor__',
           'difference_update', 'intersection_update', 'symmetric_difference_update')
DICT_MUT = ('__setitem__', '__delitem__', 'pop', 'popitem', 'clear', 'update', 'setdefault', '__ior__', '__missing__')
DEQUE_MUT = ('append', 'appendleft', 'extend', 'extendleft', 'pop', 'popleft', 'remove', 'clear', 'rotate', 'reverse',
             '__setitem__', '__delitem__', 'insert')

SpyList = _mk_builtin_spy(list, 'SpyList', LIST_MUT)
SpyTuple = _mk_builtin_spy(tuple, 'SpyTuple')
SpySet = _mk_builtin_spy(set, 'SpySet', SET_MUT)
SpyFrozenSet = _mk_builtin_spy(frozenset, 'SpyFrozenSet')
SpyDeque = _mk_builtin_spy(collections.deque, 'SpyDeque', DEQUE_MUT)
SpyDict = _mk_builtin_spy(dict, 'SpyDict', DICT_MUT, mapping=True)
SpyOrderedDict = _mk_builtin_spy(collections.OrderedDict, 'SpyOrderedDict', DICT_MUT + ('move_to_end',), mapping=True)
SpyCounter = _mk_builtin_spy(collections.Counter, 'SpyCounter', DICT_MUT + ('subtract',), mapping=True)


class SpyDefaultDict(collections.defaultdict):
    """defaultdict spy: ``__missing__`` (which inserts) is the mutation to watch."""

    @property
    def log(self):
        d = self.__dict__.get('_log')
        if d is None:
            d = self.__dict__['_log'] = collections.Counter()
        return d

    def __missing__(self, key):
        self.log['MUTATE:__missing__'] += 1
        return super().__missing__(key)

    def __len__(self):
        self.log['__len__'] += 1
        return super().__len__()

    def __iter__(self):
        self.log['__iter__'] += 1
        return SpyIter(super().__iter__(), self.log)

    def __getitem__(self, k):
        self.log['__getitem__'] += 1
        return super().__getitem__(k)

    def __setitem__(self, k, v):
        self.log['MUTATE:__setitem__'] += 1
        return super().__setitem__(k, v)

    def __contains__(self, k):
        self.log['__contains__'] += 1
        return super().__contains__(k)

    def __repr__(self):
        self.log['__repr__'] += 1
        return 'SpyDefaultDict(<%d items>)' % super().__len__()

    def keys(self):
        self.log['keys'] += 1
        return SpyView(super().keys(), self.log, 'keys')

    def values(self):
        self.log['values'] += 1
        return SpyView(super().values(), self.log, 'values')

    def items(self):
        self.log['items'] += 1
        return SpyView(super().items(), self.log, 'items')


class _PyBase:
    def __init__(self, items):
        self._items = list(items)
        self.log = collections.Counter()

    def __repr__(self):
        self.log['__repr__'] += 1
        return '%s(<%d items>)' % (type(self).__name__, len(self._items))


class SpySeq(_PyBase, cabc.Sequence):
    def __len__(self):
        self.log['__len__'] += 1
        return len(self._items)

    def __getitem__(self, i):
        self.log['__getitem__'] += 1
        return self._items[i]

    def __iter__(self):
        self.log['__iter__'] += 1
        return SpyIter(iter(self._items), self.log)

    def __contains__(self, x):
        self.log['__contains__'] += 1
        return x in self._items

    def __reversed__(self):
        self.log['__reversed__'] += 1
        return SpyIter(reversed(self._items), self.log)


class SpyAbsSet(_PyBase, cabc.Set):
    def __len__(self):
        self.log['__len__'] += 1
        return len(self._items)

    def __iter__(self):
        self.log['__iter__'] += 1
        return SpyIter(iter(self._items), self.log)

    def __contains__(self, x):
        self.log['__contains__'] += 1
        return x in self._items


class SpyCollection(_PyBase, cabc.Collection):
    def __len__(self):
        self.log['__len__'] += 1
        return len(self._items)

    def __iter__(self):
        self.log['__iter__'] += 1
        return SpyIter(iter(self._items), self.log)

    def __contains__(self, x):
        self.log['__contains__'] += 1
        return x in self._items


class SpyMap(cabc.Mapping):
    def __init__(self, items):
        self._d = dict(items)
        self.log = collections.Counter()

    def __len__(self):
        self.log['__len__'] += 1
        return len(self._d)

    def __iter__(self):
        self.log['__iter__'] += 1
        return SpyIter(iter(self._d), self.log)

    def __getitem__(self, k):
        self.log['__getitem__'] += 1
        return self._d[k]

    def __contains__(self, k):
        self.log['__contains__'] += 1
        return k in self._d

    def keys(self):
        self.log['keys'] += 1
        return SpyView(self._d.keys(), self.log, 'keys')

    def values(self):
        self.log['values'] += 1
        return SpyView(self._d.values(), self.log, 'values')

    def items(self):
        self.log['items'] += 1
        return SpyView(self._d.items(), self.log, 'items')

    def __repr__(self):
        self.log['__repr__'] += 1
        return 'SpyMap(<%d items>)' % len(self._d)


class SpyIterable(_PyBase):
    """Iterable that is *not* a collection (no __len__, no __contains__): re-iterable, but a check has no business iterating it."""

    def __iter__(self):
        self.log['__iter__'] += 1
        return SpyIter(iter(self._items), self.log)


class SpySizedIterable(_PyBase):
    """Sized and iterable, but *not* a collection (no __contains__): a lazy sized stream such as a data loader. Re-iterable
    here, so that only the counters tell whether a check iterated it."""

    def __len__(self):
        self.log['__len__'] += 1
        return len(self._items)

    def __iter__(self):
        self.log['__iter__'] += 1
        return SpyIter(iter(self._items), self.log)


class SpySizedReversible(SpySizedIterable):
    def __reversed__(self):
        self.log['__reversed__'] += 1
        return SpyIter(reversed(self._items), self.log)


class SpyContainer(_PyBase):
    """Container only: ``__contains__`` and nothing else."""

    def __contains__(self, x):
        self.log['__contains__'] += 1
        return x in self._items


class OneShot:
    """One-shot iterator: every ``__next__`` consumes; optionally raises if it is ever advanced."""

    def __init__(self, items, explode=False):
        self._it = iter(list(items))
        self.log = collections.Counter()
        self.explode = explode

    def __iter__(self):
        self.log['__iter__'] += 1
        return self

    def __next__(self):
        self.log['__next__'] += 1
        if self.explode:
            raise RuntimeError('stream advanced by a type-check')
        return next(self._it)

    def __repr__(self):
        self.log['__repr__'] += 1
        return 'OneShot()'


class SizedOneShot(OneShot):
    """One-shot stream that also reports how many items are left (``__len__``), like a data-loader iterator: sized and
    iterable, but neither re-iterable nor a ``Collection`` (no ``__contains__``)."""

    def __init__(self, items, explode=False):
        super().__init__(items, explode)
        self._left = len(list(items))

    def __len__(self):
        self.log['__len__'] += 1
        return self._left

    def __next__(self):
        v = super().__next__()
        self._left -= 1
        return v

    def __repr__(self):
        self.log['__repr__'] += 1
        return 'SizedOneShot()'


class SizedReversibleOneShot(SizedOneShot):
    """As above, and reversible (``__reversed__`` hands out another one-shot stream over the same buffer)."""

    def __reversed__(self):
        self.log['__reversed__'] += 1
        return self


class CursorOneShot(SizedOneShot):
    """A one-shot iterator that is structurally a ``Collection`` as well (``__len__`` = rows left, ``__contains__``), like a
    database cursor or a "remaining rows" reader: ``iter(x) is x``, so taking its first item removes it for good."""

    def __contains__(self, v):
        self.log['__contains__'] += 1
        return False

    def __repr__(self):
        self.log['__repr__'] += 1
        return 'CursorOneShot()'


def item_fetches(log):
    """Number of items a check pulled out of a container, by any protocol route."""
    n = 0
    for k, v in log.items():
        if k in ('__getitem__', '__next__', 'keys.__next__', 'values.__next__', 'items.__next__', 'get'):
            n += v
    return n


def mutations(log):
    return {k: v for k, v in log.items() if k.startswith('MUTATE:')}
