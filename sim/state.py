"""In-place snapshot / restore of beartype's process-global mutable state.

Forking a pristine process per simulated run is ~100x more expensive in this
sandbox than running the same operations (fork / exit / page-fault handling do
not scale across its vCPUs), so the engines run a *batch* of runs in one forked
child and put beartype back into its pristine state between runs:

* ``snapshot()`` (called once in the driver, after boot, before any beartype
  operation) walks every object *owned* by beartype -- module globals, functions
  (closure cells, defaults), classes, instances of beartype classes and the
  containers reachable from them -- and records a shallow copy of each mutable
  one;
* ``restore()`` puts the recorded contents back *in place* (so that every alias
  held anywhere stays valid) for the records known to change, and
  ``verify()`` compares *all* records, returning the ones that changed without
  being known (they are then restored and remembered).

Every reported violation is re-confirmed in a really pristine forked child
before it is printed, so an incomplete restore can cost sensitivity but never
soundness.
"""
import collections
import gc
import sys
import types

_RECORDS = []          # list of Record
_DIRTY = set()         # indices of records known to change
_EXTRA = {}
_SNAPPED = False

OWNED_PREFIXES = ('beartype',)
EXTRA_OWNED_MODULES = ('sim.hints', 'sim.ops')


def _owned_modname(name):
    if not name:
        return False
    return name == 'beartype' or name.startswith('beartype.') or name in EXTRA_OWNED_MODULES


class Record:
    __slots__ = ('kind', 'obj', 'snap', 'path')

    def __init__(self, kind, obj, snap, path):
        self.kind = kind
        self.obj = obj
        self.snap = snap
        self.path = path

    def changed(self):
        k, o, s = self.kind, self.obj, self.snap
        try:
            if k == 'dict':
                if len(o) != len(s):
                    return True
                for key, v in s.items():
                    if key not in o or o[key] is not v:
                        return True
                return False
            if k == 'list':
                if len(o) != len(s):
                    return True
                for a, b in zip(o, s):
                    if a is not b:
                        return True
                return False
            if k == 'set':
                return len(o) != len(s) or o != s
            if k == 'cell':
                try:
                    return o.cell_contents is not s[0] if s else True
                except ValueError:
                    return bool(s)
            if k == 'attrs':
                cur = _get_attrs(o)
                if len(cur) != len(s):
                    return True
                for key, v in s.items():
                    if key not in cur or cur[key] is not v:
                        return True
                return False
        except Exception:
            return True
        return False

    def restore(self):
        k, o, s = self.kind, self.obj, self.snap
        if k == 'dict':
            dict.clear(o)
            dict.update(o, s)
        elif k == 'list':
            o[:] = s
        elif k == 'set':
            o.clear()
            o.update(s)
        elif k == 'deque':
            o.clear()
            o.extend(s)
        elif k == 'cell':
            if s:
                o.cell_contents = s[0]
            else:
                try:
                    del o.cell_contents
                except ValueError:
                    pass
        elif k == 'attrs':
            cur = _get_attrs(o)
            for key in list(cur):
                if key not in s:
                    try:
                        delattr(o, key)
                    except Exception:
                        pass
            for key, v in s.items():
                if key not in cur or cur[key] is not v:
                    try:
                        setattr(o, key, v)
                    except Exception:
                        try:
                            object.__setattr__(o, key, v)
                        except Exception:
                            pass


_SKIP_ATTRS = frozenset(('__dict__', '__weakref__', '__doc__', '__module__', '__qualname__', '__name__'))


def _get_attrs(o):
    """Attributes of a class (own dict) or an instance (dict + slots) as a plain dict."""
    out = {}
    if isinstance(o, type):
        for k, v in vars(o).items():
            if k not in _SKIP_ATTRS:
                out[k] = v
        return out
    d = getattr(o, '__dict__', None)
    if isinstance(d, dict):
        out.update(d)
    for c in type(o).__mro__:
        sl = c.__dict__.get('__slots__')
        if not sl:
            continue
        if isinstance(sl, str):
            sl = (sl,)
        for name in sl:
            if name in ('__dict__', '__weakref__'):
                continue
            if name.startswith('__') and not name.endswith('__'):
                name = '_%s%s' % (c.__name__.lstrip('_'), name)
            try:
                out[name] = object.__getattribute__(o, name)
            except AttributeError:
                pass
    return out


def snapshot():
    """Enumerate beartype-owned mutable state and record it. Idempotent."""
    global _SNAPPED
    if _SNAPPED:
        return len(_RECORDS)
    _SNAPPED = True
    seen = set()
    stack = []
    for name in sorted(sys.modules):
        if _owned_modname(name) and sys.modules[name] is not None:
            stack.append((sys.modules[name], name))
    stack.reverse()
    FunctionType = types.FunctionType
    ModuleType = types.ModuleType
    CellType = types.CellType
    deque = collections.deque
    while stack:
        o, path = stack.pop()
        i = id(o)
        if i in seen:
            continue
        seen.add(i)
        t = type(o)
        if t is ModuleType:
            if not _owned_modname(getattr(o, '__name__', '')):
                continue
            d = o.__dict__
            seen.add(id(d))
            _RECORDS.append(Record('dict', d, dict(d), path))
            for k in sorted(d, key=str):
                if k == '__builtins__':
                    continue
                stack.append((d[k], path + '.' + str(k)))
        elif t is dict or (isinstance(o, dict)):
            _RECORDS.append(Record('dict', o, dict(dict.items(o)), path))
            n = 0
            for k, v in list(dict.items(o)):
                stack.append((v, '%s[%.40r]' % (path, k)))
                stack.append((k, '%s<key>' % path))
                n += 1
            if t is not dict and _owned_modname(getattr(t, '__module__', '')):
                a = _get_attrs(o)
                if a:
                    _RECORDS.append(Record('attrs', o, dict(a), path + '<attrs>'))
                    for k, v in a.items():
                        stack.append((v, path + '.' + k))
        elif t is list:
            _RECORDS.append(Record('list', o, list(o), path))
            for j, v in enumerate(o):
                stack.append((v, '%s[%d]' % (path, j)))
        elif t is set:
            _RECORDS.append(Record('set', o, set(o), path))
            for v in o:
                stack.append((v, path + '{}'))
        elif t is deque:
            _RECORDS.append(Record('deque', o, list(o), path))
            for v in o:
                stack.append((v, path + '[]'))
        elif t is tuple or t is frozenset:
            for j, v in enumerate(o):
                stack.append((v, '%s(%d)' % (path, j)))
        elif t is FunctionType:
            if not _owned_modname(getattr(o, '__module__', None) or ''):
                continue
            for j, c in enumerate(o.__closure__ or ()):
                stack.append((c, '%s<cell %d>' % (path, j)))
            if o.__defaults__:
                stack.append((o.__defaults__, path + '<defaults>'))
            if o.__kwdefaults__:
                stack.append((o.__kwdefaults__, path + '<kwdefaults>'))
            if o.__dict__:
                stack.append((o.__dict__, path + '<fdict>'))
        elif t is CellType:
            try:
                v = o.cell_contents
                _RECORDS.append(Record('cell', o, (v,), path))
                stack.append((v, path))
            except ValueError:
                _RECORDS.append(Record('cell', o, (), path))
        elif isinstance(o, type):
            if not _owned_modname(getattr(o, '__module__', None) or ''):
                continue
            a = _get_attrs(o)
            _RECORDS.append(Record('attrs', o, dict(a), path + '<class>'))
            for k in sorted(a):
                stack.append((a[k], path + '.' + k))
        elif t in (classmethod, staticmethod):
            stack.append((o.__func__, path))
        elif t is property:
            for f in (o.fget, o.fset, o.fdel):
                if f is not None:
                    stack.append((f, path))
        elif t is types.MethodType:
            stack.append((o.__func__, path))
            stack.append((o.__self__, path + '<self>'))
        elif _owned_modname(getattr(t, '__module__', None) or ''):
            a = _get_attrs(o)
            if a:
                _RECORDS.append(Record('attrs', o, dict(a), path + '<inst %s>' % t.__name__))
                for k in sorted(a):
                    stack.append((a[k], path + '.' + k))
    _snapshot_extra()
    return len(_RECORDS)


def _snapshot_extra():
    import importlib._bootstrap_external as ibe
    import warnings
    _EXTRA['path_hooks'] = list(sys.path_hooks)
    _EXTRA['meta_path'] = list(sys.meta_path)
    _EXTRA['modules'] = set(sys.modules)
    _EXTRA['path'] = list(sys.path)
    _EXTRA['filters'] = list(warnings.filters)
    _EXTRA['showwarning'] = warnings.showwarning
    _EXTRA['_showwarnmsg_impl'] = warnings._showwarnmsg_impl
    _EXTRA['cfs'] = ibe.cache_from_source
    _EXTRA['cw_enter'] = warnings.catch_warnings.__enter__
    _EXTRA['cw_exit'] = warnings.catch_warnings.__exit__
    _EXTRA['environ_color'] = None


def restore_extra():
    import importlib
    import importlib._bootstrap_external as ibe
    import typing
    import warnings
    if sys.path_hooks != _EXTRA['path_hooks']:
        sys.path_hooks[:] = _EXTRA['path_hooks']
        sys.path_importer_cache.clear()
    if sys.meta_path != _EXTRA['meta_path']:
        sys.meta_path[:] = _EXTRA['meta_path']
    if sys.path != _EXTRA['path']:
        sys.path[:] = _EXTRA['path']
        sys.path_importer_cache.clear()
    if len(sys.modules) != len(_EXTRA['modules']):
        for name in list(sys.modules):
            if name not in _EXTRA['modules']:
                del sys.modules[name]
    warnings.filters[:] = _EXTRA['filters']
    warnings._filters_mutated()
    warnings.showwarning = _EXTRA['showwarning']
    warnings._showwarnmsg_impl = _EXTRA['_showwarnmsg_impl']
    warnings.onceregistry.clear()
    cw = warnings.catch_warnings
    if cw.__enter__ is not _EXTRA['cw_enter']:
        cw.__enter__ = _EXTRA['cw_enter']
    if cw.__exit__ is not _EXTRA['cw_exit']:
        cw.__exit__ = _EXTRA['cw_exit']
    ibe.cache_from_source = _EXTRA['cfs']
    for m in list(sys.modules.values()):
        r = getattr(m, '__dict__', {}).get('__warningregistry__') if m is not None else None
        if r:
            r.clear()
    for f in typing._cleanups:
        f()
    import os
    os.environ.pop('BEARTYPE_IS_COLOR', None)


def restore():
    """Put every changed record (and the interpreter-level extras) back. Full comparison: ~1.5 ms."""
    n = 0
    for i, r in enumerate(_RECORDS):
        if r.changed():
            r.restore()
            _DIRTY.add(i)
            n += 1
    restore_extra()
    return n


def verify(fix=True):
    """Full comparison; returns paths of records that changed although not known dirty."""
    leaks = []
    for i, r in enumerate(_RECORDS):
        if i in _DIRTY:
            continue
        if r.changed():
            leaks.append(i)
    if fix:
        # restore in index order: parents before children is not required (all in place)
        for i in leaks:
            _RECORDS[i].restore()
            _DIRTY.add(i)
    return leaks


def learn(indices):
    _DIRTY.update(indices)


def dirty_paths():
    return sorted(_RECORDS[i].path for i in _DIRTY)


def dirty_indices():
    return sorted(_DIRTY)


def stats():
    return {'records': len(_RECORDS), 'dirty': len(_DIRTY)}
