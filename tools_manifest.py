#!/venv/bin/python
"""Writes /verif/MANIFEST.json from the table below (kept in one place so that it stays valid)."""
import json, os
HERE = os.path.dirname(os.path.abspath(__file__))
PY = '/venv/bin/python -B /verif/check.py'

CLAIMED = {
 'C01': dict(
    technique='deterministic simulation, sampler seam: the 32-bit sampler draw is owned by the simulator and enumerated per case (all residues mod lcm of sequence lengths + boundary + random), cache state perturbed; oracle = independent three-valued reference semantics',
    text='Seeded search over (hint, conforming object, configuration) triples; for every effective sampler draw all six entry points must accept, consume at most one draw and raise nothing, on cold and warm caches alike. The draw is the only nondeterminism of this property and is decided by the simulator; the hint/object generation around it is ordinary workload generation. Evidence, not proof.',
    note='Trusted: the reference conforms() (a sufficient condition only), the generators, the seam (random.getrandbits replaced before any code is generated).',
    design='5/C01'),
 'C02': dict(
    technique='deterministic simulation, sampler seam: draws enumerated per case; oracles from the three-valued reference semantics (must-reject on every draw, reachability of the single bad index, is_random=False inspects item 0, acceptance implies a consistent path)',
    text='Seeded search over (hint, violating object, position of the violation, configuration); must-reject objects are rejected at every entry point for every enumerated draw, a sequence with one bad item is rejected exactly when the draw selects it, is_random=False rejects a bad item 0 without consuming the sampler, and accepted arbitrary objects have a consistent item at each level. Evidence, not proof.',
    note='Trusted: reference must_reject()/some_path() (sufficient / necessary conditions only), the generators, the sampler seam.',
    design='5/C02'),
 'C03': dict(
    technique='deterministic simulation, sampler seam: one draw shared by the six entry points (fast path and explanation path are linked only by that draw); relational oracle, no reference semantics needed',
    text='Seeded search over (hint, object, configuration, draw): identical accept/reject at all six entry points under the same draw; rejections surface as exactly the configured class per pith kind, warning classes warn once and the call proceeds, the message names the hint, culprits begin with the rejected object, and no non-violation exception (e.g. the internal desynchronisation error) ever escapes. Evidence, not proof.',
    note='Trusted: the sampler seam, the normalisation of "message names the hint" and of the documented repr stand-in for culprits that cannot be weakly referenced.',
    design='5/C03'),
 'C18': dict(
    technique='deterministic simulation, sampler seam: one draw shared by the option-configured check and the hand-rewritten check',
    text='Seeded search over hints mentioning float/complex/overridden classes at any depth x objects x draws: is_pep484_tower=True and hint_overrides={A: B} must give, entry point by entry point and draw by draw, the verdict of the default configuration on the hand-rewritten hint; violation_*type settings change only the class of the signal; options are also combined (tower with overrides spelling out its own replacements and/or unrelated classes) and the unrewritten hint is checked under the plain configuration in the same process, before or after the option side. Evidence, not proof.',
    note='Trusted: the hand-rewriting function over the hint DSL (class leaves incl. inside type[...]), the sampler seam.',
    design='5/C18'),
 'C06': dict(
    technique='deterministic simulation: seeded hook-registration histories with conflict / body-raise / invalid-name faults against a declarative reference model in lock-step',
    text='Seeded search over histories of beartype_all/_package(s)/_this_package calls and (nested, raising) beartyping() blocks; after every operation the real registry is queried for ~40 module names and compared with a three-value reference model (nearest registered ancestor, skip/exclusion, restore-on-exit, failed call changes nothing, path hook present iff registry non-empty); three of ten histories also import on-disk modules named like the registered packages - before the first registration too - and compare what the imported module does with the model; a configuration argument that is no configuration is injected at every entry point. Evidence, not proof.',
    note='Trusted: the reference model (the property\'s sentences; reading of "restores exactly" stated in the evidence assumptions), in-place state restore between runs (violations re-confirmed in a pristine fork).',
    design='5/C06'),
 'C07': dict(
    technique='deterministic simulation (history dimension): seeded orders of decorate / define-name / call events over live synthetic modules; evaluated-annotation twin under the same sampler draw as oracle',
    text='Seeded search over histories in which a callable annotated by strings (quoted, partially quoted or postponed; module, method, nested-class method, closure and closure-class placement; plain function, generator, asynchronous generator or coroutine) is decorated before, between or after the definition of the names it refers to and called at each stage: unresolved names needed by a check raise a beartype forward-reference exception (never NameError), the same function object works after the name is defined, and every call with all names resolvable gives the verdict of a twin decorated with the evaluated annotation under the same draw. The hint-shape coverage is ordinary generation; the technique decides the order-of-events part. Evidence, not proof.',
    note='Trusted: the templates (only references Python\'s scoping makes resolvable), eval() of the annotation text for the twin.',
    design='5/C07'),
 'C08': dict(
    technique='deterministic simulation: virtual-time asyncio event loop + protocol-operation driver, seeded cancellation/time-out/throw/close/finalisation faults, undecorated twin as oracle',
    text='Seeded search over generated generator / async-generator / coroutine bodies x protocol-operation sequences and event-loop scenarios (virtual time, seeded I/O completion, cancellation and time-outs injected at seeded instants, early break + finalisation, shutdown with live generators); the decorated function must produce the same per-object trace, body log (cleanup order) and final state as its undecorated twin, and report the same kind to inspect. Evidence, not proof.',
    note='Trusted: the virtual loop (asyncio.BaseEventLoop with a fake selector), the trampoline driver, the body generator (no yields while handling GeneratorExit, as the property excludes them).',
    design='5/C08'),
 'C16': dict(
    technique='deterministic simulation: histories of interpreter runs over one on-disk tree with per-run hook configuration, simulated-mtime edits, seeded line-level interleaving of concurrent imports (incl. importlib frames) and crash points; empty-cache twin as oracle',
    text='Seeded search over sequences of interpreter runs on a scratch package tree (hook off / 17 configurations per run incl. strategy O0 / On and the numeric tower, runs with bytecode writing switched off, source edits with simulated mtime, 2-3 threads importing hooked and unhooked modules under a seeded schedule with pre-emption inside beartype\'s loader and importlib\'s SourceLoader.get_code, crashes at seeded steps); every module must behave as on a copy of the tree with an empty cache, and every .pyc must hold transformed code iff its name carries beartype\'s marker. Evidence, not proof.',
    note='Trusted: interpreter boundary emulated by restoring beartype state and evicting the package (violations re-confirmed with one forked child per interpreter run), behavioural fingerprint as the observation, disjoint modules per thread (import-system locks avoided, not modelled).',
    design='5/C16'),
 'C17': dict(
    technique='deterministic simulation: seeded construction histories with look-alike/invalid/unhashable value and environment faults against a reference memo-table model; threaded fraction under the baton scheduler',
    text='Seeded search over histories of BeartypeConf constructions (valid, invalid, equal-but-differently-typed, unhashable values; BEARTYPE_IS_COLOR faults; two threads under the scheduler in 20% of runs) checked step by step against a small executable reference model of validation and memoisation. Evidence, not proof.',
    note='Trusted: the reference validate()/key model (my reading of the documented option rules), in-place state restore between runs (violations re-confirmed in a pristine fork).',
    design='5/C17'),
 'C09': dict(
    technique='deterministic simulation (weakest fit): sampler seam + instrumented storage stubs counting every item read from the checked container, size sweep under fixed draws',
    text='For container-bearing hints, conforming and violating stub containers of sizes 0..1000 (quick) / 0..100000 (thorough) are checked at all entry points under fixed draws; per container instance and per pass at most one item (mapping: one key and its value) is fetched, call counts are identical across the sweep, non-collection iterables are never iterated, repr() happens only when a rejection is described and a size-independent number of times. No schedule or fault is involved; the simulator contributes the draw and the storage stubs. Evidence, not proof.',
    note='Trusted: the counting stubs (subclasses of the builtin containers and pure-Python ABC implementations); dictionary views cannot be instrumented and are not swept; wall time is not asserted.',
    design='5/C09'),
 'C10': dict(
    technique='deterministic simulation (weakest fit): sampler seam + stream/container stubs (one-shot and exploding streams, logging containers) as the fault surface',
    text='The checked object is the I/O surface: one-shot iterators (plain and raising-if-advanced), generators, map/zip/enumerate/reversed objects, StringIO, defaultdicts and containers logging every method; after a check at any entry point and draw - also when the object sits inside a rejected object before the culprit, so that the explanation walks past it - no consuming or mutating call was made, the stream still yields its first element, len(defaultdict) and contents are unchanged and the wrapped callable received the identical object. No schedule is involved; the simulator contributes the draw and the stubs. Evidence, not proof.',
    note='Trusted: the stubs and their post-check inspection; validators (user callables) are out of scope here.',
    design='5/C10'),
 'C11': dict(
    technique='deterministic simulation, fault injection at user-callback seams (wrapped callable, validators, instance/subclass hooks, Literal __eq__): failure on the n-th invocation placed in fast path / explanation path / later call; identity of the escaping exception as oracle. Second half (bad hints) is input-driven monitoring',
    text='Fault half: seeded placement of a raising user callback (10 sites x 6 hint shapes x 8 exception classes incl. TypeError x invocation 1-3 x 6 entry points); the very same exception object must escape unchanged, never be swallowed into a verdict, replaced by a violation, or remembered on the next healthy call. Monitored half: 28 valid/unsupported/malformed/unhashable/non-hint objects x 7 APIs; only public beartype.roar exceptions of the right family and BeartypeWarning subclasses may escape. Evidence, not proof; the second half is input-driven and the simulator adds only generator and replay.',
    note='Trusted: classification of beartype\'s own hint-validation probes of __instancecheck__/__subclasscheck__ (not counted as call-time invocations), the pool of bad hints.',
    design='5/C11'),
 'C14': dict(
    technique='deterministic simulation: seeded API-operation histories (same-named classes, deletion + explicit GC, cache clears, failing operations, define-later) with a fresh-state oracle per query under a fixed sampler draw',
    text='Seeded search over histories of public-API operations preceding each query; every query is answered a second time after beartype\'s state has been put back to pristine and only the operations constructing its arguments replayed (same draw); answers must be equal, and a query asked twice in a row must answer identically. Door queries carry their optional parameters (exception_prefix, conf) and string hints resolved against a user module whose names are rebound between queries. Violations that depend on allocation history (id() reuse) are re-confirmed by re-executing the whole batch in an identical fresh worker. Evidence, not proof.',
    note='Trusted: in-place state restoration as the "fresh interpreter" (violations re-confirmed in a really pristine fork, or by exact batch re-execution), dependency tracking of query arguments, explicit-GC-only discipline.',
    design='5/C14'),
 'C15': dict(
    technique='deterministic simulation: baton-passing thread scheduler over real threads (sys.settrace line pre-emption, simulated locks), seeded schedule search, sequential-order oracle',
    text='Seeded search over line-level interleavings of 2-4 threads issuing public-API operations; outcomes must equal those of some sequential order, singletons must be shared, no deadlock/livelock, process-global hooks restored at quiescence. Evidence, not proof: a sample of schedules.',
    note='Trusted: the scheduler/SimLock shim, in-place state restore between runs (every violation is re-confirmed in a pristine forked interpreter), line-granularity pre-emption under the GIL (no bytecode-level or free-threaded races), no pre-emption inside imports.',
    design='5/C15'),
}

NOT_APPLICABLE = {
 'C04': 'pure function of (signature, call shape): the wrapper keeps no state, reads no clock and its single sampler draw does not influence argument binding; nothing for a scheduler or fault injector to decide',
 'C05': 'the AST transformation is a pure function of (module source, configuration); the I/O around it (bytecode cache, concurrent imports) is exactly C16 and is decided there; program equivalence over all modules is differential testing, not simulation',
 'C12': 'equivalence of three representations of a boolean expression language over all expressions and objects; no schedule, history, fault or draw (validators are leaves, never sampled)',
 'C13': 'relational property between two decoration routes over class bodies and configurations; decoration is deterministic and single-shot',
 'C19': 'order laws and soundness of is_subhint over hint pairs/triples; deterministic; its only stateful aspect (id-keyed memo) is part of the C14 histories',
 'C20': 'infer_hint uses the On strategy by default and is a deterministic function of the object; the round trip through is_bearable is an input property (the sampler matters only through C01)',
}

PENDING = {}

def main():
    checks = []
    for pid, c in sorted(CLAIMED.items()):
        checks.append({
            'property_id': pid,
            'quick_cmd': '%s %s --tier quick' % (PY, pid),
            'thorough_cmd': '%s %s --tier thorough' % (PY, pid),
            'evidence_file': '/verif/evidence/%s.json' % pid,
            'replay_cmd_template': '%s %s --replay {path}' % (PY, pid),
            'engine': 'sim',
            'level_claimed': {'category': 'exploration', 'text': c['text'], 'design_ref': 'DESIGN.md section ' + c['design']},
            'level_note': c['note'],
            'technique': c['technique'],
        })
    na = [{'property_id': k, 'reason': v} for k, v in sorted({**NOT_APPLICABLE, **PENDING}.items())]
    m = {
        'version': 1,
        'setup_cmd': '%s setup' % PY,
        'hooks': {
            'guard': 'BEARTYPE_VERIF_SIM',
            'enable': 'no source hook is needed: every seam is a module attribute, an import-time factory or an OS boundary installed by /verif/sim/boot.py (beartype is imported from /repo\'s working tree)',
            'baseline_off_cmd': 'cd /repo && /venv/bin/python -m pytest -ra -q -p no:cacheprovider --timeout=900 --continue-on-collection-errors',
            'source_commits': [],
            'add_only': True,
        },
        'engines': [{'name': 'sim', 'path': '/verif/sim', 'serves_properties': sorted(CLAIMED),
                     'kind_free_text': 'deterministic simulation with fault injection: seeded scheduler over real threads, virtual-time event loop, sampler/lock/clock seams, fork-per-batch executor, replay + minimisation'}],
        'checks': checks,
        'not_applicable': na,
        'notes': 'fix: commits in /repo and recorded findings are listed in /verif/known_findings.json; see DESIGN.md sections 6.4 and 7.',
    }
    with open(os.path.join(HERE, 'MANIFEST.json'), 'w') as f:
        json.dump(m, f, indent=1)
    print('wrote MANIFEST.json: %d checks, %d not applicable' % (len(checks), len(na)))

if __name__ == '__main__':
    main()
