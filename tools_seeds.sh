#!/bin/bash
# Run every quick check under several seeds (evidence written to a scratch dir); prints one summary line per (check, seed).
SEEDS=${SEEDS:-"1 2 3 4"}
IDS=${IDS:-"C01 C02 C03 C06 C07 C08 C09 C10 C11 C14 C15 C16 C17 C18"}
OUT=${OUT:-/tmp/verif-seeds}
mkdir -p $OUT
for s in $SEEDS; do for p in $IDS; do
  VERIF_SEED=$s VERIF_EVIDENCE_DIR=$OUT/ev timeout 1200 /venv/bin/python -B /verif/check.py $p --tier quick > $OUT/$p.$s.log 2>&1
  echo "seed=$s $p exit=$? $(grep -c '^VIOLATION' $OUT/$p.$s.log) violations; $(tail -1 $OUT/$p.$s.log | cut -c1-160)"
done; done
